"""Realistic breaking edits used to validate the monitors (tools/mut.py). Each must keep the repository's tests passing."""
MUTATIONS = [
    # ---- C13
    dict(prop='C13', name='charge sub_cost on a match in distance', file='pero_ocr/sequence_alignment.py',
         old="        dist[1:] = np.minimum(dist[1:] + del_cost, dist[:-1] + (target != s) * sub_cost)\n        dist[0] += del_cost",
         new="        dist[1:] = np.minimum(dist[1:] + del_cost, dist[:-1] + (target != s) * sub_cost + (sub_cost > 1) * (target == s))\n        dist[0] += del_cost"),
    dict(prop='C13', name='count deletions as insertions in edit stats', file='pero_ocr/sequence_alignment.py',
         old="    return nphn, ncor, nins, ndel, nsub", new="    return nphn, ncor, ndel, nins, nsub"),
    dict(prop='C13', name='substring alignment: revert first-row init', file='pero_ocr/sequence_alignment.py',
         old="    backtrack[0] = -1\n    dist = np.ones((1 + len(target) + 1)) * float('inf')\n    dist[:-1] = np.arange(len(target) + 1) * ins_cost\n    dist[-1] = dist[-2]",
         new="    backtrack[0] = -1\n    dist = np.ones((1 + len(target) + 1)) * float('inf')\n    dist[0] = 0"),
    dict(prop='C13', name='aggregate forgets insertions of the last summary', file='pero_ocr/error_summary.py',
         old="            total_nb_inss += err.nb_inss", new="            total_nb_inss += err.nb_inss if err is not errors[-1] or len(errors) < 3 else 0"),
    # ---- C04
    dict(prop='C04', name='engine greedy: blank class off by one', file='pero_ocr/ocr_engine/pytorch_ocr_engine.py',
         old="    best[best == scores_probs.shape[1]] = 0", new="    best[best == scores_probs.shape[1] - 1] = 0", ),
    dict(prop='C04', name='standalone greedy: groupby after blank removal', file='pero_ocr/decoding/decoders.py',
         old="        reduced = [g[0] for g in itertools.groupby(argmaxes)]\n        decoded = self.symbol_separator.join(self._letters[ind] for ind in reduced if ind != self._blank_ind)",
         new="        reduced = [g[0] for g in itertools.groupby(a for a in argmaxes if a != self._blank_ind)]\n        decoded = self.symbol_separator.join(self._letters[ind] for ind in reduced)"),
    dict(prop='C04', name='engine greedy: prepended frame not forced to blank', file='pero_ocr/ocr_engine/pytorch_ocr_engine.py',
         old="        scores_probs[:, -1, 0] = 1000", new="        scores_probs[:, -1, 0] = -1000"),
    # ---- C05
    dict(prop='C05', name='skip transition allowed between equal labels when followed by a third', file='pero_ocr/core/force_alignment.py',
         old="            if elements[ind_elem] != elements[ind_elem+1]:", new="            if elements[ind_elem] != elements[ind_elem+1] or ind_elem + 2 < nb_elements:"),
    dict(prop='C05', name='blank state reads the last column instead of the blank column', file='pero_ocr/core/force_alignment.py',
         old="    return array[:, seq]", new="    return array[:, [s if k % 2 else -1 for k, s in enumerate(seq)]]"),
    dict(prop='C05', name='align_text picks least confident frame', file='pero_ocr/core/force_alignment.py',
         old="        best_pos = np.argmax(max_probs[seq_positions])", new="        best_pos = np.argmin(max_probs[seq_positions])"),
    dict(prop='C05', name='infeasibility only detected when every final state is inf and T > 1', file='pero_ocr/core/force_alignment.py',
         old="    if np.amin(final_frame_cost) == np.inf:", new="    if np.amin(final_frame_cost) == np.inf and neg_logits.shape[0] > nb_states // 2:"),
]
