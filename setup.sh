#!/bin/bash
# Offline setup: install icontract (runtime contracts) beside the repository's interpreter,
# into /verif/.deps (git-ignored), from the pre-installed wheelhouse. Idempotent.
set -e
cd "$(dirname "$0")"
export PIP_NO_INDEX=1
if [ ! -d .deps/icontract ]; then
  /venv/bin/pip install --quiet --no-index --find-links /opt/veriftools/wheels --target .deps icontract >/dev/null 2>&1 \
    || /venv/bin/pip install --no-index --find-links /opt/veriftools/wheels --target .deps icontract
fi
PYTHONPATH="${VERIF_REPO:-/repo}:$PWD:$PWD/.deps" /venv/bin/python -c "import icontract, pero_ocr, vf; print('setup ok: icontract', icontract.__version__)"
