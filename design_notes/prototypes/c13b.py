import random, numpy as np
from pero_ocr.sequence_alignment import *
exec(open('/tmp/explore/c13.py').read().split("random.seed(1)")[0].split("from pero_ocr.sequence_alignment import *")[1])
random.seed(2)
bad=0;badal=0;n=0;ex=[]
for _ in range(4000):
    a=[random.choice('abc') for _ in range(random.randint(0,6))]
    b=[random.choice('abc') for _ in range(random.randint(0,6))]
    n+=1
    ds=levenshtein_distance_substring(a,b)
    r=ref_sub(a,b)
    if ds!=r: bad+=1; ex.append((a,b,ds,r))
    try:
        al=levenshtein_alignment_substring(a,b)
    except Exception as e:
        badal+=1; ex.append(('EXC',a,b,repr(e))); continue
    # projections
    pa=[x for x,y in al if x is not None]; pb=[y for x,y in al if y is not None]
    if pa!=a or pb!=b: badal+=1; ex.append(('proj',a,b,al)); continue
    # strip free part: the longer is "source": pairs (s,None) at the edges free
    longer_first = len(a)>=len(b)
    core=list(al)
    def free(p): return (p[1] is None) if longer_first else (p[0] is None)
    while core and free(core[0]): core.pop(0)
    while core and free(core[-1]): core.pop()
    cost=sum(1 for x,y in core if x!=y)
    if cost!=r: badal+=1; ex.append(('cost',a,b,al,cost,r))
print(n,bad,badal); 
for e in ex[:10]: print(e)
