import numpy as np, warnings
warnings.filterwarnings('ignore')
import pero_ocr.decoding.decoders as D
from c02b import gen
rec=[]
otk=D.top_k; ofn=D.find_new_prefixes
def tk(a,k,reverse=False):
    r=otk(a,k,reverse); rec.append(('topk',a.copy(),k,tuple(np.asarray(x).copy() for x in r))); return r
def fn(prev,best,A,blank):
    r=ofn(prev,best,A,blank); rec.append(('prefixes',[tuple(p) for p in r[0]])); return r
D.top_k=tk; D.find_new_prefixes=fn
rnd=np.random.default_rng(0); bad=0; frames=0; pruned=0
for it in range(2000):
    T=int(rnd.integers(1,8)); k=int(rnd.choice([1,2,3,5,8]))
    lp=gen(rnd.choice(['onehot','zeros','allpruned','ties','const','rand']),T,4)
    rec.clear()
    D.CTCPrefixLogRawNumpyDecoder(['a','b','c',D.BLANK_SYMBOL],k=k)(lp)
    for e in rec:
        if e[0]=='topk':
            _,a,kk,idx=e; frames+=1
            sel=a[idx]; mask=np.ones(a.shape,bool); mask[idx]=False
            nfin=int(np.isfinite(a).sum())
            if kk!=min(k,nfin) or len(sel)!=kk or len(set(zip(*[i.tolist() for i in idx])))!=kk: bad+=1
            rest=a[mask]
            if rest.size and np.isfinite(rest).any(): pruned+=1
            if rest.size and sel.min()<rest.max(): bad+=1
            if not np.all(np.isfinite(sel)): bad+=1
        else:
            if len(set(e[1]))!=len(e[1]): bad+=1
print('frames',frames,'pruned frames',pruned,'bad',bad)
