import numpy as np, warnings, importlib.util, copy, random
warnings.filterwarnings('ignore')
from scipy import sparse
from pero_ocr.core.layout import PageLayout, RegionLayout, TextLine
from pero_ocr.core.confidence_estimation import get_line_confidence
spec=importlib.util.spec_from_file_location('merge_ocr_results','/repo/user_scripts/merge_ocr_results.py'); M=importlib.util.module_from_spec(spec); spec.loader.exec_module(M)
from c06 import mk_logits
def mkengine_layout(rnd, nlines, charset, texts, modes):
    pl=PageLayout(id='p',page_size=(100,100)); reg=RegionLayout('r',np.array([[0,0],[10,0],[10,10]]))
    for i in range(nlines):
        t=texts[i]
        tl=TextLine(id='l%d'%i,baseline=np.array([[0,i],[10,i]]),polygon=np.array([[0,i],[10,i],[10,i+1]]),heights=[1,1],transcription=t)
        lg,T=mk_logits(rnd,t if t else 'x',charset,modes[i]); tl.logits=lg; tl.characters=charset; tl.logit_coords=[0,T]
        reg.lines.append(tl)
    pl.regions.append(reg); return pl
iss={}
for it in range(500):
    rnd=random.Random(it)
    ne=rnd.randint(1,4); nl=rnd.randint(1,4)
    layouts=[]
    for e in range(ne):
        cs=list('abcdefgh '); rnd.shuffle(cs)
        texts=[rnd.choice(['',None,''.join(rnd.choice('abcdefgh ') for _ in range(rnd.randint(1,6)))]) for _ in range(nl)]
        texts=[t.strip() if t else t for t in texts]
        modes=[rnd.choice(['peaky','diffuse','short']) for _ in range(nl)]
        layouts.append(mkengine_layout(rnd,nl,cs,texts,modes))
    snap=[[(l.transcription,l.logits,l.characters,l.transcription_confidence,l.id,l.baseline.copy()) for l in pl.lines_iterator()] for pl in layouts]
    # oracle
    exp=[]
    for li in range(nl):
        best=0;bi=None
        for e in range(ne):
            l=list(layouts[e].lines_iterator())[li]
            c=M.get_confidences(l)
            m=c.mean() if c.size>0 else -10
            if m>best: best=m;bi=e
        exp.append((bi,best))
    try:
        M.merge_layouts(layouts)
    except Exception as ex:
        iss.setdefault('EXC '+repr(ex)[:60],[]).append(it); continue
    for li,(bi,best) in enumerate(exp):
        l=list(layouts[0].lines_iterator())[li]
        src=snap[bi if bi is not None else 0][li]
        if l.transcription!=src[0] or l.logits is not src[1] or l.characters is not src[2]: iss.setdefault('fields',[]).append((it,li,bi))
        if bi is not None and abs(l.transcription_confidence-best)>1e-12: iss.setdefault('conf',[]).append((it,li))
        if l.id!=snap[0][li][4] or not np.array_equal(l.baseline,snap[0][li][5]): iss.setdefault('geom',[]).append(it)
print({k:(len(v),v[:3]) for k,v in iss.items()})
