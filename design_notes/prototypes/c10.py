import numpy as np, math, warnings
warnings.filterwarnings('ignore')
from pero_ocr.core.crop_engine import EngineLineCropper
rnd=np.random.default_rng(0)
res={}
for poly in (0,1,2):
    fails=0; n=0; fracs=[]
    for it in range(400):
        npts=int(rnd.integers(2,7))
        ang=math.radians(rnd.uniform(-55,55)); L=rnd.uniform(60,400)
        x0,y0=rnd.uniform(100,300),rnd.uniform(200,400)
        ts=np.sort(np.concatenate([[0,1],rnd.uniform(0.1,0.9,npts-2)]))
        ts=np.linspace(0,1,npts)
        curv=rnd.uniform(-6,6)
        pts=np.array([[x0+t*L*math.cos(ang)-curv*math.sin(ang)*4*t*(1-t), y0+t*L*math.sin(ang)+curv*math.cos(ang)*4*t*(1-t)] for t in ts])
        img=rnd.integers(0,255,size=(900,900,3),dtype=np.uint8)
        eng=EngineLineCropper(line_height=32,poly=poly,scale=1)
        err=[]
        orig=eng.get_crop_inputs
        def wrapped(*a,**k):
            try: return orig(*a,**k)
            except Exception as e:
                err.append(e); raise
        eng.get_crop_inputs=wrapped
        import io, contextlib
        with contextlib.redirect_stdout(io.StringIO()):
            c=eng.crop(img,pts,[20,8])
        n+=1
        if err: fails+=1; fracs.append((npts,type(err[0]).__name__,str(err[0])[:60]))
    res[poly]=(n,fails,fracs[:3])
print(res)
