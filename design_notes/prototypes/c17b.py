import sys, os, io, contextlib, importlib.util, shutil, warnings, time, re, pickle, itertools, random
warnings.filterwarnings('ignore')
import cv2, numpy as np
from c17setup import setup
SRC=sys.argv[1]
spec=importlib.util.spec_from_file_location('parse_folder',SRC); PF=importlib.util.module_from_spec(spec); spec.loader.exec_module(PF)
from pero_ocr.core.layout import PageLayout
class Crash(BaseException): pass
events=[]; state={'crash_at':None,'n':0}
ROOT='/tmp/explore/pf3'
IDS=('a','b.v2','c.jpg_x','d.xml')
setup(ROOT,ids=IDS)
def wrap(obj,name,kind,pathidx):
    orig=getattr(obj,name)
    def w(*a,**k):
        if state['crash_at'] is not None and state['n']==state['crash_at']: raise Crash()
        r=orig(*a,**k); state['n']+=1; events.append((kind,os.path.relpath(a[pathidx],ROOT))); return r
    setattr(obj,name,w)
wrap(PageLayout,'to_pagexml','xml',1); wrap(PageLayout,'save_logits','logits',1); wrap(PageLayout,'to_altoxml','alto',1); wrap(cv2,'imwrite','img',0)
proc=[]
oc=PF.Computator.__call__
def cc(self,image_file_name,file_id,index,ids_count):
    proc.append(file_id); return oc(self,image_file_name,file_id,index,ids_count)
PF.Computator.__call__=cc
OPT={'xml':'xml','render':'render','logits':'logit','alto':'alto','line':'line'}
def run(out,kinds,crash_at=None):
    argv=['pf','-c',ROOT+'/config.ini','-i',ROOT+'/img','-x',ROOT+'/xml','--device','cpu','-s']
    for k in kinds: argv+=['--output-%s-path'%OPT[k], f'{out}/{k}']
    sys.argv=argv; state['crash_at']=crash_at; state['n']=0; events.clear(); proc.clear()
    res='ok'
    with contextlib.redirect_stdout(io.StringIO()), contextlib.redirect_stderr(io.StringIO()):
        try: PF.main()
        except Crash: res='crash'
        except SystemExit as e: res='exit%s'%e.code
        except Exception as e: res='EXC '+type(e).__name__
    return res,list(events),list(proc)
def snapshot(out):
    snap={}
    for d,_,fs in os.walk(out):
        for f in fs:
            p=os.path.join(d,f); rel=os.path.relpath(p,out); b=open(p,'rb').read()
            if rel.endswith('.xml'): b=re.sub(rb'<(Created|LastChange|processingDateTime)>[^<]*</\1>',b'',b)
            if rel.endswith('.logits'):
                d_=pickle.loads(b); b=repr(sorted((k,(v.toarray().tobytes() if hasattr(v,'toarray') else repr(v))) for k,v in d_.items())).encode()
            snap[rel]=hash(b)
    return snap
def files_of(pid,ref):  # expected outputs of a page
    return {k for k in ref if os.path.basename(k).startswith(pid+'.') and os.path.basename(k).rsplit('.',1)[0]==pid or os.path.basename(k).startswith(pid+'-r0-')}
ALL=['xml','render','logits','alto','line']
subsets=[list(c) for r in range(1,6) for c in itertools.combinations(ALL,r)]
tot=0; viol={}
t0=time.time()
rnd=random.Random(0)
for kinds in subsets:
    ref_out=ROOT+'/ref'; shutil.rmtree(ref_out,ignore_errors=True)
    res,ev,pr=run(ref_out,kinds); ref=snapshot(ref_out); nw=len(ev)
    r0,_,pr0=run(ref_out,kinds)
    if r0!='ok': viol.setdefault('nothing-to-do:'+r0,[]).append(kinds)
    if pr0: viol.setdefault('complete-reprocessed(full)',[]).append((kinds,pr0))
    seqs=[(p,) for p in range(nw+1)]
    seqs+=[(rnd.randint(0,nw),rnd.randint(0,nw)) for _ in range(6)]
    for seq in seqs:
        out=ROOT+'/o'; shutil.rmtree(out,ignore_errors=True)
        tot+=1
        for p in seq:
            before=snapshot(out) if os.path.exists(out) else {}
            complete={pid for pid in IDS if files_of(pid,ref) and files_of(pid,ref)<=set(before)}
            r1,ev1,pr1=run(out,kinds,crash_at=p)
            if complete&set(pr1): viol.setdefault('complete-reprocessed',[]).append((kinds,seq,sorted(complete&set(pr1))))
        before=snapshot(out) if os.path.exists(out) else {}
        complete={pid for pid in IDS if files_of(pid,ref) and files_of(pid,ref)<=set(before)}
        r2,ev2,pr2=run(out,kinds)
        if complete&set(pr2): viol.setdefault('complete-reprocessed',[]).append((kinds,seq,sorted(complete&set(pr2))))
        snap=snapshot(out) if os.path.exists(out) else {}
        missing=sorted(set(ref)-set(snap)); diff=[k for k in snap if k in ref and snap[k]!=ref[k]]
        if r2!='ok': viol.setdefault('resume-'+r2,[]).append((kinds,seq))
        if missing: viol.setdefault('missing',[]).append((kinds,seq,missing[:2]))
        if diff: viol.setdefault('different',[]).append((kinds,seq,diff[:2]))
print('runs',tot,'time %.1f'%(time.time()-t0))
for k,v in viol.items():
    print(k,len(v)); 
    ks={}
    for e in v: ks.setdefault(tuple(e[0]) if isinstance(e,tuple) else tuple(e),0); ks[tuple(e[0]) if isinstance(e,tuple) else tuple(e)]+=1
    print('   by subset:',dict(list(ks.items())[:40]))
    print('   e.g.',v[0])
