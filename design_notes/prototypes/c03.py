import numpy as np, torch, math
from brnolm.language_models.language_model import LanguageModel
from brnolm.language_models.lstm_model import LSTMLanguageModel
from brnolm.language_models.decoders import FullSoftmaxDecoder
from pero_ocr.decoding.lm_wrapper import LMWrapper, HiddenState
from pero_ocr.decoding.decoders import CTCPrefixLogRawNumpyDecoder, BLANK_SYMBOL
from c02 import rand_lp, lae, ctc_logprob
def make_lm(letters, seed, dim=8):
    torch.manual_seed(seed)
    vocab={'<unk>':0,'</s>':1}
    for i,c in enumerate(letters): vocab[c]=i+2
    enc=torch.nn.Embedding(len(vocab),dim)
    model=LSTMLanguageModel(enc,dim,dim,2,dropout=0.0)
    dec=FullSoftmaxDecoder(dim,len(vocab),init_range=2.0)
    for p in model.parameters(): p.data.uniform_(-1.5,1.5)
    lm=LanguageModel(model,dec,vocab).double()
    lm._unused_prefix_len=2
    return lm
def lm_score(lm, seq_ids, h0=None, eos=False):
    # seq_ids are decoder indices; vocab idx = +2
    with torch.no_grad():
        if h0 is None:
            h=lm.model.init_hidden(1)
            _,h=lm.model(torch.tensor([[1]]),h)
        else: h=h0
        tot=0.0
        for s in seq_ids:
            y=lm.decoder(h[0][-1])[0]
            tot+=y[s+2].item()
            _,h=lm.model(torch.tensor([[s+2]]),h)
        if eos:
            tot+=lm.decoder(h[0][-1])[0][1].item()
    return tot,h
if __name__=='__main__':
    letters=['a','b','c']
    rnd=np.random.default_rng(1)
    st={'n':0,'lm_mismatch':0,'best_mismatch':0,'h_mismatch':0,'conf':0}
    ex=[]
    for it in range(400):
        lm=make_lm(letters,it)
        w=LMWrapper(lm,letters,torch.device('cpu'))
        T=int(rnd.integers(1,7)); k=int(rnd.integers(1,7)); scale=float(rnd.choice([0,0.3,1.0,2.5])); bonus=float(rnd.choice([0,0.5]))
        eos=bool(rnd.random()<0.5)
        lp=rand_lp(rnd,T,4,rnd.choice([1,3,8]))
        dec=CTCPrefixLogRawNumpyDecoder(letters+[BLANK_SYMBOL],k=k,lm=w,lm_scale=scale,insertion_bonus=bonus)
        boh,h=dec(lp,model_eos=eos,return_h=True)
        st['n']+=1
        tots=[]
        for hyp in boh:
            ids=[letters.index(c) for c in hyp.transcript]
            exp,_=lm_score(lm,ids,eos=eos); exp+=bonus*len(ids)
            if abs(exp-hyp.lm_sc)>1e-8: st['lm_mismatch']+=1; ex.append(('lm',hyp,exp))
            tots.append(hyp.vis_sc+scale*hyp.lm_sc)
        best=list(boh)[int(np.argmax(tots))].transcript
        srt=sorted(tots,reverse=True)
        if len(srt)>1 and srt[0]-srt[1]<1e-9: continue
        if boh.best_hyp()!=best: st['best_mismatch']+=1; ex.append(('best',scale,boh.best_hyp(),best))
        if abs(boh.confidence()-boh.transcript_confidence(best))>1e-12: st['conf']+=1
        _,hexp=lm_score(lm,[letters.index(c) for c in best])
        if not all(torch.allclose(a,b,atol=1e-9) for a,b in zip(h._h,hexp)): st['h_mismatch']+=1
    print(st); print(ex[:5])
