import numpy as np, cv2, os, sys, shutil
from stub import make_engine_dir
from pero_ocr.core.layout import PageLayout, RegionLayout, TextLine
def setup(root, ids=('p1','p2.v2','img.jpg_scan')):
    shutil.rmtree(root,ignore_errors=True)
    os.makedirs(root+'/img'); os.makedirs(root+'/xml')
    make_engine_dir(root+'/eng',list('abcdefgh '),H=16)
    rnd=np.random.default_rng(0)
    for pid in ids:
        img=rnd.integers(1,255,size=(300,400,3),dtype=np.uint8)
        cv2.imwrite(f'{root}/img/{pid}.png',img)
        pl=PageLayout(id=pid,page_size=(300,400))
        reg=RegionLayout('r0',np.array([[10,10],[390,10],[390,290],[10,290]]))
        for l in range(2):
            y=60+l*80
            reg.lines.append(TextLine(id=f'r0-l{l}',baseline=np.array([[20,y],[300+l*40,y]]),polygon=np.array([[20,y-20],[300+l*40,y-20],[300+l*40,y+8],[20,y+8]]),heights=[20,8]))
        pl.regions.append(reg)
        pl.to_pagexml(f'{root}/xml/{pid}.xml')
    open(root+'/config.ini','w').write("""
[PAGE_PARSER]
RUN_LAYOUT_PARSER = no
RUN_LINE_CROPPER = yes
RUN_OCR = yes
RUN_DECODER = no

[LINE_CROPPER]
INTERP = 2
LINE_SCALE = 1
LINE_HEIGHT = 16

[OCR]
OCR_JSON = ./eng/ocr.json
USE_CPU = yes
""")
if __name__=='__main__': setup(sys.argv[1])
