import numpy as np, torch, warnings, io, contextlib, json, os, copy
warnings.filterwarnings('ignore')
import torchvision
from pero_ocr.ocr_engine import transformer as T
from pero_ocr.ocr_engine.transformer_ocr_engine import TransformerEngineLineOCR
def tiny_vgg(pretrained=False, **kw):
    ch=[(3,4),(4,4),'M',(4,6),(6,6),'M',(6,8),(8,8),(8,8),'M']
    layers=[]
    for c in ch:
        if c=='M': layers.append(torch.nn.MaxPool2d(2,2))
        else: layers+= [torch.nn.Conv2d(c[0],c[1],3,padding=1), torch.nn.ReLU(inplace=True)]
    m=torch.nn.Module(); m.features=torch.nn.Sequential(*layers); return m
torchvision.models.vgg16=tiny_vgg
def make_engine(root,seed,H=32,dim=16,heads=2,dff=32,enc=1,dec=2,chars='abcdef'):
    os.makedirs(root,exist_ok=True)
    net_cfg={'dim_model':dim,'dim_ff':dff,'heads':heads,'encoder_layers':enc,'decoder_layers':dec,'conv_subsampling':[8,8]}
    torch.manual_seed(seed)
    with contextlib.redirect_stdout(io.StringIO()):
        net=T.build_net(net_cfg,H,3,len(chars))
    for n_,p in net.named_parameters():
        if p.dim()>1: torch.nn.init.normal_(p,std=0.4)
    with torch.no_grad():
        net.dec_embeder.weight.normal_(std=2.0); net.dec_out_proj.weight.normal_(std=1.0)
        net.dec_out_proj.bias.zero_(); net.dec_out_proj.bias[len(chars)]=0.5
    torch.save(net.state_dict(),root+'/t.pt')
    json.dump({'line_px_height':H,'line_vertical_scale':1,'checkpoint':'t.pt','characters':list(chars),'net_name':json.dumps(net_cfg)},open(root+'/t.json','w'))
    with contextlib.redirect_stdout(io.StringIO()):
        e=TransformerEngineLineOCR(root+'/t.json',torch.device('cpu'))
    return e
if __name__=='__main__':
    rnd=np.random.default_rng(0)
    worst=0; lens=[]
    for seed in range(6):
        e=make_engine('/tmp/explore/teng',seed)
        fresh=copy.deepcopy(e.net)
        hist=[]
        for b in range(4):
            N=int(rnd.choice([1,2,3])); W=int(rnd.choice([64,128,256]))
            x=rnd.integers(0,255,size=(N,3,32,W),dtype=np.uint8)
            with torch.no_grad(), contextlib.redirect_stdout(io.StringIO()):
                o,l=e.transcribe_batch(x.copy(),is_cached=True)
                o2,l2=e.transcribe_batch(x.copy(),is_cached=False)
                e2=copy.copy(e); e2.net=copy.deepcopy(fresh)
                o3,l3=e2.transcribe_batch(x.copy(),is_cached=True)
                singles=[e2.transcribe_batch(x[i:i+1].copy(),is_cached=True) for i in range(N)]
                labels=torch.cat([torch.full((N,1),e.sentence_boundary_ind),l.argmax(-1)[:,:-1]],1)
                full=e.net(torch.from_numpy(x).float()/255.0,labels).permute(1,0,2)
            d=[float((l-l2).abs().max()),float((l-l3).abs().max()),float((l-full).abs().max())]
            for i,(os_,ls_) in enumerate(singles):
                n=min(ls_.shape[1],l.shape[1]); d.append(float((ls_[0,:n]-l[i,:n]).abs().max()))
            worst=max(worst,max(d)); lens+= [len(t) for t in o]
            print(seed,b,N,W,'steps',l.shape[1],'lens',[len(t) for t in o],'maxdiff %.2e'%max(d), 'scale %.1f'%float(l.abs().max()))
    print('worst',worst)
