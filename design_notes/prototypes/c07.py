import numpy as np, torch, warnings, io, contextlib
warnings.filterwarnings('ignore')
from stub import make_engine_dir, StubNet
from pero_ocr.ocr_engine.pytorch_ocr_engine import PytorchEngineLineOCR
chars=list('abcdefgh ')
j=make_engine_dir('/tmp/explore/eng',chars,H=16)
rnd=np.random.default_rng(0)
net=StubNet(16,len(chars)+1,0).eval()
def alone(img):
    w=img.shape[1]; W=int(np.ceil(w/32)*32)+64
    x=np.zeros((1,16,W,3),np.uint8); x[0,:,32:32+w]=img
    with torch.no_grad():
        y=net(torch.from_numpy(x).float().permute(0,3,1,2)/255.0)[0].T.numpy()
    return y
iss={}
n=0
for it in range(150):
    bs=int(rnd.integers(1,17))
    eng=PytorchEngineLineOCR(j,torch.device('cpu'),batch_size=bs)
    k=int(rnd.integers(0,12))
    ws=[int(rnd.choice([1,3,4,5,31,32,33,64,100,rnd.integers(1,600)])) for _ in range(k)]
    lines=[rnd.integers(1,255,size=(16,w,3),dtype=np.uint8) for w in ws]
    mode=rnd.choice(['sparse','dense','tight','nologits'])
    kw=dict(sparse_logits=mode=='sparse',tight_crop_logits=mode=='tight',no_logits=mode=='nologits')
    with contextlib.redirect_stdout(io.StringIO()):
        tr,lg,co=eng.process_lines(lines,**kw)
        perm=rnd.permutation(k)
        tr2,lg2,co2=eng.process_lines([lines[i] for i in perm],**kw)
    if len(tr)!=k: iss.setdefault('len',[]).append(it)
    for pos,i in enumerate(perm):
        if tr2[pos]!=tr[i]: iss.setdefault('order-dep-text',[]).append((it,i))
    for i,(img,w) in enumerate(zip(lines,ws)):
        n+=1
        trunc = int(np.ceil(max(ws)/32)*32)+64 > 480*bs
        ref=alone(img)
        if mode=='nologits':
            if lg[i] is not None: iss.setdefault('nologits',[]).append(it)
            continue
        a,b=8,(32+w)//4
        L=lg[i].toarray() if mode=='sparse' else lg[i]
        if mode=='tight':
            if co[i]!=[None,None]: iss.setdefault('tightco',[]).append(it)
            if not np.allclose(L,ref[a:b][:L.shape[0]],atol=1e-4): iss.setdefault('tight-logits',[]).append((it,i,w,L.shape,ref[a:b].shape))
            continue
        if co[i]!=[a,b]: iss.setdefault('coords',[]).append((it,i,w,co[i]))
        win=L[a:b]; r=ref[a:b][:win.shape[0]]
        if mode=='dense':
            if not np.allclose(win,r,atol=1e-4): iss.setdefault('dense-logits',[]).append((it,i,w))
        else:
            p=np.exp(r-np.logaddexp.reduce(r,axis=1)[:,None])
            keep=p>=1e-4
            if not np.allclose(win[keep&(p>1.2e-4)],r[keep&(p>1.2e-4)],atol=1e-4) or np.any(win[p<0.8e-4]!=0): iss.setdefault('sparse',[]).append((it,i,w))
print(n,{k:(len(v),v[:3]) for k,v in iss.items()})
