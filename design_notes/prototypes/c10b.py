import numpy as np, math, warnings, cv2, io, contextlib
warnings.filterwarnings('ignore')
from pero_ocr.core.crop_engine import EngineLineCropper
rnd=np.random.default_rng(1)
stats={'chord':[], 'first':[], 'last':[], 'perp':[], 'rowlin':[], 'up':[], 'width':[], 'pix':[], 'fastgen':[], 'shiftpix':[]}
def bilinear(img,xy):
    x=xy[...,0].astype(np.float64); y=xy[...,1].astype(np.float64)
    H,W=img.shape[:2]
    x0=np.floor(x).astype(int); y0=np.floor(y).astype(int)
    fx=x-x0; fy=y-y0
    def g(yy,xx):
        inside=(xx>=0)&(xx<W)&(yy>=0)&(yy<H)
        v=np.zeros(xx.shape+(img.shape[2],))
        v[inside]=img[yy[inside],xx[inside]]
        return v
    return (g(y0,x0)*((1-fx)*(1-fy))[...,None]+g(y0,x0+1)*(fx*(1-fy))[...,None]+g(y0+1,x0)*((1-fx)*fy)[...,None]+g(y0+1,x0+1)*(fx*fy)[...,None])
n=0
for it in range(600):
    poly=int(rnd.choice([0,1,2])); H=int(rnd.choice([16,32,48,64])); scale=float(rnd.choice([0.8,1.0,1.5]))
    npts=int(rnd.integers(2,8)); ang=math.radians(rnd.uniform(-58,58)); L=rnd.uniform(60,900)
    x0,y0=rnd.uniform(200,400),rnd.uniform(300,500)
    deg={0:3,1:1,2:2}[poly]
    sag=rnd.uniform(-6,6) if deg>=2 else 0.0
    ts=np.linspace(0,1,npts)
    loc=np.stack([ts*L, sag*4*ts*(1-ts)],1)
    R=np.array([[math.cos(ang),math.sin(ang)],[-math.sin(ang),math.cos(ang)]])
    pts=np.round(loc@R+np.array([x0,y0]))
    hh=[rnd.uniform(6,40),rnd.uniform(2,15)]
    eng=EngineLineCropper(line_height=H,poly=poly,scale=scale)
    try:
        c=eng.get_crop_inputs(pts,hh,H).astype(np.float64)
    except Exception as e:
        print('EXC',poly,npts,e); continue
    n+=1
    Hh,Ww=c.shape[:2]
    frac=hh[0]/(hh[0]+hh[1])*(Hh-1)
    r0=int(np.floor(frac)); a=frac-r0
    base=c[r0]*(1-a)+c[min(r0+1,Hh-1)]*a
    ch=np.linalg.norm(np.diff(base,axis=0),axis=1)
    step=(hh[0]+hh[1])*scale/H
    stats['chord'].append(np.abs(ch/step-1).max())
    stats['first'].append(np.linalg.norm(base[0]-pts[0])); stats['last'].append(np.linalg.norm(base[-1]-pts[-1])-step)
    # arc length expected
    tang=np.gradient(base,axis=0); tang/=np.linalg.norm(tang,axis=1)[:,None]
    col=c[-1]-c[0]; coln=col/np.linalg.norm(col,axis=1)[:,None]
    stats['perp'].append(np.abs((coln*tang).sum(1)).max())
    # col direction should be "down": (-ty,tx) dot col >0
    down=np.stack([-tang[:,1],tang[:,0]],1)
    stats['up'].append(((down*coln).sum(1)).min())
    lin=np.abs(c-(c[0][None]+(np.arange(Hh)/(Hh-1))[:,None,None]*col[None])).max()
    stats['rowlin'].append(lin)
    stats['width'].append(abs(np.linalg.norm(col,axis=1)-(hh[0]+hh[1])*scale).max())
    # pixels
    kind=rnd.choice(['smooth','noise'])
    if kind=='smooth':
        yy,xx=np.mgrid[0:1000,0:1400]; img=np.stack([(xx*0.2+yy*0.1)%256,(xx*0.05)%256,(yy*0.3)%256],2).astype(np.uint8)
    else: img=rnd.integers(0,256,size=(1000,1400,3),dtype=np.uint8)
    with contextlib.redirect_stdout(io.StringIO()):
        crop=eng.crop(img,pts,hh)
    ref=bilinear(img,c)
    # local contrast tolerance
    stats['pix'].append((np.abs(crop.astype(float)-ref).max(),kind))
    full=cv2.remap(img,c[...,0].astype(np.float32),c[...,1].astype(np.float32),interpolation=cv2.INTER_LINEAR,borderMode=cv2.BORDER_CONSTANT)
    stats['fastgen'].append((np.abs(full.astype(int)-crop.astype(int)).max(),kind))
for k,v in stats.items():
    if not v: continue
    if isinstance(v[0],tuple):
        for kind in('smooth','noise'):
            vv=[a for a,b in v if b==kind]; print(k,kind,np.max(vv),np.percentile(vv,99))
    else: print(k,'max',np.max(v),'p99',np.percentile(v,99),'min',np.min(v))
print(n)
