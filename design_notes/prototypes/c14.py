import random, itertools, copy
from pero_ocr.decoding.confusion_networks import *
def readable(cn, s):
    # DP: set of positions in s reachable
    cur={0}
    for pos in cn:
        nxt=set()
        for i in cur:
            if None in pos: nxt.add(i)
            if i<len(s) and s[i] in pos: nxt.add(i+1)
        cur=nxt
    return len(s) in cur
random.seed(3)
viol={}
N=5000
for it in range(N):
    n=random.randint(1,4)
    hyps=[''.join(random.choice('ab') for _ in range(random.randint(0,4))) for _ in range(n)]
    cn=[]
    added=[]; tot=0.0
    for h in hyps:
        sc=random.choice([0.5,1.0,0.25])
        before=copy.deepcopy(cn)
        cn=add_hypothese(cn,h,sc)
        added.append(h); tot+=sc
        for a in added:
            if not readable(cn,a):
                key='lost-new' if a==h else 'lost-old'
                viol.setdefault(key,[]).append((hyps,a,before,cn)); 
        for pos in cn:
            if abs(sum(pos.values())-tot)>1e-9:
                viol.setdefault('weight',[]).append((hyps,cn,tot)); break
for k,v in viol.items():
    print(k,len(v)); 
    for e in v[:4]: print('   ',e)
