import numpy as np, random
import pero_ocr.ocr_engine.line_ocr_engine as E
rec=[]
orig=E.find_best_overlap
def wrap(a,b):
    r=orig(a,b); rec.append(r); return r
E.find_best_overlap=wrap
rnd=random.Random(0)
iss={}
for it in range(3000):
    kind=rnd.choice(['windows','noisy','unrelated','empties'])
    text=''.join(rnd.choice('abcdefg ') for _ in range(rnd.randint(5,40)))
    if kind in('windows','noisy'):
        w=rnd.randint(4,12); ov=rnd.randint(1,w-1); parts=[]; s=0
        while True:
            parts.append(text[s:s+w]); 
            if s+w>=len(text): break
            s+=w-ov
        if kind=='noisy':
            parts=[ ''.join((rnd.choice('xyz') if rnd.random()<0.1 else c) for c in p) for p in parts]
    elif kind=='unrelated':
        parts=[''.join(rnd.choice('abc') for _ in range(rnd.randint(1,6))) for _ in range(rnd.randint(1,5))]
        parts=[p.replace('a','q') if i%2 else p.replace('b','r').replace('c','s') for i,p in enumerate(parts)]
    else:
        parts=[rnd.choice(['', ''.join(rnd.choice('abc') for _ in range(rnd.randint(1,5)))]) for _ in range(rnd.randint(1,5))]
    logits=[np.arange((len(p)+rnd.randint(0,3))*3,dtype=float).reshape(-1,3)+100*i for i,p in enumerate(parts)]
    rec.clear()
    try:
        t,l=E.merge_transcriptions_and_logits(parts,logits)
    except Exception as e:
        iss.setdefault('EXC '+repr(e)[:50],[]).append((kind,parts)); continue
    ov=list(rec)
    if len(t)!=sum(map(len,parts))-sum(ov): iss.setdefault('len '+kind,[]).append((parts,ov,t))
    if l.shape[0]!=len(t): iss.setdefault('rows',[]).append((parts,ov,t,l.shape))
    k=len(parts[0])-sum((o+1)//2 for o in ov)
    if k>0 and not t.startswith(parts[0][:k]): iss.setdefault('start',[]).append((parts,ov,t))
    if len(parts)>1 and not t.endswith(parts[-1][ov[-1]//2:]): iss.setdefault('end',[]).append((parts,ov,t))
    if all(o==0 for o in ov) and t!=''.join(parts): iss.setdefault('concat',[]).append((parts,ov,t))
print({k:(len(v),v[0]) for k,v in iss.items()})
