import numpy as np, configparser, warnings, signal, traceback
warnings.filterwarnings('ignore')
from pero_ocr.core.layout import PageLayout, RegionLayout, TextLine
from pero_ocr.layout_engines.smart_sorter import SmartRegionSorter
from pero_ocr.layout_engines.naive_sorter import NaiveRegionSorter
from shapely.geometry import Polygon
cfg=configparser.ConfigParser(); cfg.read_dict({'S':{}}); 
rnd=np.random.default_rng(0)
def mkpage(kind):
    n=int(rnd.integers(0,9))
    pl=PageLayout(id='p',page_size=(2000,1500))
    for i in range(n):
        if kind=='grid':
            c,r=i%3,i//3; x0,y0=100+c*400,100+r*500; w,h=350,450
        elif kind=='overlap':
            x0,y0=rnd.integers(0,800),rnd.integers(0,1200); w,h=rnd.integers(200,900),rnd.integers(200,900)
        elif kind=='identical':
            x0,y0,w,h=100,100,400,400
        elif kind=='degenerate':
            x0,y0=rnd.integers(0,800),rnd.integers(0,1200); w,h=rnd.choice([0,rnd.integers(1,500)]),rnd.choice([0,rnd.integers(1,500)])
        elif kind=='poly':
            x0,y0=rnd.integers(0,800),rnd.integers(0,1200); w,h=rnd.integers(50,600),rnd.integers(50,600)
        if kind=='poly':
            k=int(rnd.integers(3,8)); ang=np.sort(rnd.uniform(0,2*np.pi,k))
            poly=np.stack([x0+w/2+w/2*np.cos(ang), y0+h/2+h/2*np.sin(ang)],1)
        else:
            poly=np.array([[x0,y0],[x0+w,y0],[x0+w,y0+h],[x0,y0+h]],dtype=float)
        reg=RegionLayout('r%03d'%i,poly)
        reg.transcription='T%d'%i
        slope=rnd.choice([0,0,0.05,-0.1])
        for l in range(int(rnd.integers(0,4))):
            by=y0+20+l*30
            bl=np.array([[x0+5,by],[x0+max(w,10)-5,by+slope*max(w,10)]],dtype=float)
            pg=np.array([[x0+5,by-15],[x0+max(w,10)-5,by-15+slope*max(w,10)],[x0+max(w,10)-5,by+5+slope*max(w,10)],[x0+5,by+5]],dtype=float)
            reg.lines.append(TextLine(id='r%03d-l%d'%(i,l),baseline=bl,polygon=pg,heights=[15,5],transcription='t'))
        pl.regions.append(reg)
    return pl
class TO(Exception): pass
def handler(s,f): raise TO()
signal.signal(signal.SIGALRM,handler)
iss={}
img=np.zeros((2000,1500,3),np.uint8)
for it in range(600):
    kind=rnd.choice(['grid','overlap','identical','degenerate','poly'])
    for sorter_name in ('smart','naive'):
        pl=mkpage(kind)
        before=[(r.id,r.transcription,[l.id for l in r.lines],Polygon(r.polygon) if len(r.polygon)>=3 else None,r) for r in pl.regions]
        s=SmartRegionSorter(cfg['S']) if sorter_name=='smart' else NaiveRegionSorter(cfg['S'])
        signal.alarm(10)
        try:
            out=s.process_page(img,pl)
            signal.alarm(0)
        except TO:
            iss.setdefault((sorter_name,'TIMEOUT',kind),[]).append(len(before)); continue
        except Exception as e:
            signal.alarm(0)
            iss.setdefault((sorter_name,'EXC',type(e).__name__+':'+str(e)[:50]),[]).append((kind,len(before))); continue
        ids=[r.id for r in out.regions]
        if sorted(ids)!=sorted(b[0] for b in before): iss.setdefault((sorter_name,'notperm',kind),[]).append((ids,[b[0] for b in before]))
        for b in before:
            r=[x for x in out.regions if x.id==b[0]]
            if len(r)!=1: continue
            r=r[0]
            if r is not b[4]: iss.setdefault((sorter_name,'notsameobj'),[]).append(kind)
            if r.transcription!=b[1] or [l.id for l in r.lines]!=b[2]: iss.setdefault((sorter_name,'content'),[]).append(kind)
            if b[3] is not None and b[3].is_valid and b[3].area>0:
                p=Polygon(r.polygon)
                if p.symmetric_difference(b[3]).area>1e-3*max(1,b[3].area): iss.setdefault((sorter_name,'geom',kind),[]).append((p.symmetric_difference(b[3]).area,b[3].area))
for k,v in iss.items(): print(k,len(v),v[:3])
