import numpy as np, random, warnings, os, tempfile
warnings.filterwarnings('ignore')
from scipy import sparse
from scipy.special import logsumexp
from pero_ocr.core.layout import PageLayout, RegionLayout, TextLine
rnd=np.random.default_rng(0)
iss={}
def mk(n):
    pl=PageLayout(id='p',page_size=(10,10)); reg=RegionLayout('r',np.array([[0,0],[1,0],[1,1]]))
    for i in range(n):
        T,C=int(rnd.integers(1,30)),int(rnd.integers(2,20))
        d=rnd.normal(size=(T,C))*5; d[rnd.random((T,C))<rnd.random()]=0
        tl=TextLine(id='l%d'%i,logits=sparse.csc_matrix(d),characters=[chr(97+j) for j in range(C-1)],logit_coords=rnd.choice([0,1]) and [None,None] or [2,T])
        reg.lines.append(tl)
    pl.regions.append(reg); return pl
for it in range(300):
    a=mk(int(rnd.integers(0,6)))
    b=PageLayout(id='p',page_size=(10,10)); reg=RegionLayout('r',np.array([[0,0],[1,0],[1,1]]))
    extra=TextLine(id='zz',logits='keep',characters='keepc',logit_coords='keepk')
    for l in a.lines_iterator(): reg.lines.append(TextLine(id=l.id))
    reg.lines.append(extra); b.regions.append(reg)
    if it%2: data=a.save_logits_bytes(); b.load_logits(data)
    else:
        f=tempfile.mktemp(); a.save_logits(f); b.load_logits(f); os.remove(f)
    for la,lb in zip(a.lines_iterator(),b.lines_iterator()):
        if (la.logits!=lb.logits).nnz or la.logits.shape!=lb.logits.shape or la.characters!=lb.characters or la.logit_coords!=lb.logit_coords: iss.setdefault('rt',[]).append(it)
        d=lb.get_dense_logits(-80); src=la.logits.toarray()
        if not np.array_equal(d[src!=0],src[src!=0]) or not np.all(d[src==0]==-80): iss.setdefault('dense',[]).append(it)
        if np.abs(logsumexp(lb.get_full_logprobs(),axis=1)).max()>1e-9: iss.setdefault('norm',[]).append(it)
    if extra.logits!='keep' or extra.characters!='keepc': iss.setdefault('untouched',[]).append(it)
    # missing component
    if a.regions[0].lines:
        a.regions[0].lines[0].characters=None
        try: a.save_logits_bytes(); iss.setdefault('nomissingerror',[]).append(it)
        except Exception: pass
print(iss)
