import sys, os, io, contextlib, importlib.util, shutil, warnings, time, re, pickle
warnings.filterwarnings('ignore')
import cv2, numpy as np
from c17setup import setup
spec=importlib.util.spec_from_file_location('parse_folder','/repo/user_scripts/parse_folder.py'); PF=importlib.util.module_from_spec(spec); spec.loader.exec_module(PF)
from pero_ocr.core.layout import PageLayout
class Crash(BaseException): pass
events=[]; state={'crash_at':None,'n':0}
def wrap(obj,name,kind,pathidx):
    orig=getattr(obj,name)
    def w(*a,**k):
        if state['crash_at'] is not None and state['n']==state['crash_at']: raise Crash()
        r=orig(*a,**k); state['n']+=1; events.append((kind,os.path.relpath(a[pathidx],ROOT))); return r
    setattr(obj,name,w)
ROOT='/tmp/explore/pf2'
setup(ROOT,ids=('a','b.v2','c.jpg_x'))
wrap(PageLayout,'to_pagexml','xml',1); wrap(PageLayout,'save_logits','logits',1); wrap(PageLayout,'to_altoxml','alto',1); wrap(cv2,'imwrite','img',0)
proc=[]
oc=PF.Computator.__call__
def cc(self,image_file_name,file_id,index,ids_count):
    proc.append(file_id); return oc(self,image_file_name,file_id,index,ids_count)
PF.Computator.__call__=cc
def run(out,crash_at=None,kinds=('xml','render','logits','alto','line')):
    argv=['pf','-c',ROOT+'/config.ini','-i',ROOT+'/img','-x',ROOT+'/xml','--device','cpu','-s']
    for k in kinds: argv+=['--output-%s-path'%{'logits':'logit'}.get(k,k), f'{out}/{k}']
    sys.argv=argv; state['crash_at']=crash_at; state['n']=0; events.clear(); proc.clear()
    res='ok'
    with contextlib.redirect_stdout(io.StringIO()), contextlib.redirect_stderr(io.StringIO()):
        try: PF.main()
        except Crash: res='crash'
        except SystemExit as e: res='exit%s'%e.code
        except Exception as e: res='EXC '+type(e).__name__
    return res,list(events),list(proc)
def snapshot(out):
    snap={}
    for d,_,fs in os.walk(out):
        for f in fs:
            p=os.path.join(d,f); rel=os.path.relpath(p,out)
            b=open(p,'rb').read()
            if rel.endswith('.xml'): b=re.sub(rb'<(Created|LastChange|processingDateTime)>[^<]*</\1>',b'',b)
            if rel.endswith('.logits'):
                d_=pickle.loads(b); b=repr(sorted((k,(v.toarray().tobytes() if hasattr(v,'toarray') else repr(v))) for k,v in d_.items())).encode()
            snap[rel]=hash(b)
    return snap
t=time.time()
shutil.rmtree(ROOT+'/ref',ignore_errors=True)
res,ev,pr=run(ROOT+'/ref'); ref=snapshot(ROOT+'/ref'); nw=len(ev)
print('ref',res,nw,'writes',pr, 'time',time.time()-t)
print('rerun nothing to do:',run(ROOT+'/ref')[0])
bad=[]
t=time.time()
for p in range(nw+1):
    out=ROOT+'/o%d'%p; shutil.rmtree(out,ignore_errors=True)
    r1,ev1,pr1=run(out,crash_at=p)
    complete_before=set()
    r2,ev2,pr2=run(out)
    snap=snapshot(out)
    missing=sorted(set(ref)-set(snap)); diff=[k for k in snap if k in ref and snap[k]!=ref[k]]
    if missing or diff or r2!='ok': bad.append((p,r1,r2,missing[:3],diff[:3],pr2))
    shutil.rmtree(out,ignore_errors=True)
print('single-crash enumeration',nw+1,'bad',len(bad),'time',time.time()-t)
for b in bad[:12]: print(b)
