import itertools, random, numpy as np
from pero_ocr.sequence_alignment import *
def ref_lev(a,b,sc=1,ic=1,dc=1):
    D=[[0]*(len(b)+1) for _ in range(len(a)+1)]
    for i in range(len(a)+1):
        for j in range(len(b)+1):
            if i==0 and j==0: continue
            c=[]
            if i>0: c.append(D[i-1][j]+dc)
            if j>0: c.append(D[i][j-1]+ic)
            if i>0 and j>0: c.append(D[i-1][j-1]+(sc if a[i-1]!=b[j-1] else 0))
            D[i][j]=min(c)
    return D[-1][-1]
def ref_sub(a,b):
    if len(b)>len(a): a,b=b,a
    best=None
    for i in range(len(a)+1):
        for j in range(i,len(a)+1):
            d=ref_lev(a[i:j],b)
            if best is None or d<best: best=d
    return best
random.seed(1)
bad=0; badsub=0; n=0
ex=[]
for _ in range(3000):
    a=[random.choice('ab c') for _ in range(random.randint(0,6))]
    b=[random.choice('ab c') for _ in range(random.randint(0,6))]
    sc,ic,dc=[random.randint(1,4) for _ in range(3)]
    n+=1
    try:
        d=levenshtein_distance(a,b,sc,ic,dc)
    except Exception as e:
        print('EXC',a,b,e); continue
    if d!=ref_lev(a,b,sc,ic,dc): bad+=1; print('dist',a,b,sc,ic,dc,d,ref_lev(a,b,sc,ic,dc))
    al=levenshtein_alignment(a,b,sc,ic,dc)
    assert [x for x,y in al if x is not None]==a,(a,b,al)
    assert [y for x,y in al if y is not None]==b
    cost=sum( (ic if x is None else dc if y is None else (sc if x!=y else 0)) for x,y in al)
    if cost!=d: print('alcost',a,b,sc,ic,dc,cost,d)
    ds=levenshtein_distance_substring(a,b)
    if ds!=ref_sub(a,b):
        badsub+=1
        if len(ex)<8: ex.append((''.join(a),''.join(b),ds,ref_sub(a,b)))
print(n,bad,badsub,ex)
