import numpy as np, torch, warnings
warnings.filterwarnings('ignore')
from pero_ocr.ocr_engine.pytorch_ocr_engine import greedy_decode_ctc
from pero_ocr.decoding.decoders import GreedyDecoder, BLANK_SYMBOL
from pero_ocr.char_confidences import greedy_filtration
rnd=np.random.default_rng(0)
def collapse(am,blank,chars):
    out=[];prev=None
    for a in am:
        if a!=prev and a!=blank: out.append(chars[a])
        prev=a
    return ''.join(out)
iss={};n=0
for it in range(3000):
    N,C,T=int(rnd.integers(1,6)),int(rnd.integers(2,12)),int(rnd.integers(1,30))
    chars=[chr(0x61+i) for i in range(C-1)]
    # build argmax path by class then scores with margin
    kind=rnd.choice(['rand','blanky','repeats','lastclass'])
    am=rnd.integers(0,C,size=(N,T))
    if kind=='blanky': am[rnd.random((N,T))<0.6]=C-1
    if kind=='repeats': am=np.repeat(am[:, :max(1,T//3)],3,axis=1)[:,:T]; T=am.shape[1]
    if kind=='lastclass' and C>2: am[rnd.random((N,T))<0.5]=C-2
    if it%10==0: am[0,:]=C-1
    sc=rnd.normal(size=(N,C,T)).astype(np.float32)
    for i in range(N):
        for t in range(T): sc[i,am[i,t],t]=sc[i,:,t].max()+0.01+rnd.random()
    exp=[collapse(am[i],C-1,chars) for i in range(N)]
    got=greedy_decode_ctc(torch.from_numpy(sc.copy()),chars+['​'])
    n+=N
    if got!=exp: iss.setdefault('engine',[]).append((it,kind,got,exp))
    gd=GreedyDecoder(chars+[BLANK_SYMBOL])
    for i in range(N):
        lp=torch.log_softmax(torch.from_numpy(sc[i].T.astype(np.float64)),dim=1).numpy()
        g=gd(lp).best_hyp()
        if g!=exp[i]: iss.setdefault('standalone',[]).append((it,g,exp[i]))
        f,_=greedy_filtration(np.exp(lp),chars+['​'])
        if f!=exp[i]: iss.setdefault('filtration',[]).append((it,f,exp[i]))
print(n,{k:(len(v),v[:2]) for k,v in iss.items()})
