import numpy as np, re
from io import BytesIO
from pero_ocr.core.layout import PageLayout, RegionLayout, TextLine, PAGEVersion
texts=['\r','a\rb','a\r\nb','\x85','a b',' ',']]>','&amp;','&#13;','<!--x-->',' ','﻿x','x�','퟿','','\U0010FFFF',' ','\n','\t','a'*3000,'́a','‏‎','\x7f','\x80\x9f']
bad=[]
for ver in PAGEVersion:
    for t in texts:
        pl=PageLayout(id=t if t.strip() else 'id',page_size=(10,20))
        reg=RegionLayout('r0',np.array([[0,0],[5,0],[5,5]])); reg.transcription=t
        reg.lines.append(TextLine(id='l0',baseline=np.array([[0,1],[4,1]]),polygon=np.array([[0,0],[4,0],[4,2]]),heights=[1.0,1.0],transcription=t,transcription_confidence=0.5))
        pl.regions.append(reg)
        try:
            x=pl.to_pagexml_string(version=ver)
            l=PageLayout(file=BytesIO(x.encode('utf-8')))
        except Exception as e:
            bad.append((ver.name,repr(t)[:20],'EXC',repr(e)[:80])); continue
        lt=l.regions[0].lines[0].transcription; rt=l.regions[0].transcription
        if lt!=t or rt!=t or l.id!=pl.id: bad.append((ver.name,repr(t)[:20],repr(lt)[:20],repr(rt)[:20],repr(l.id)[:20]))
for b in bad: print(b)
print(len(bad))
