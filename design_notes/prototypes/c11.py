import numpy as np, warnings
warnings.filterwarnings('ignore')
from pero_ocr.core.layout import RegionLayout
from pero_ocr.layout_engines.layout_helpers import assign_lines_to_regions, baseline_to_textline
import shapely.geometry as sg
rnd=np.random.default_rng(0)
def rpoly(kind):
    x0,y0=rnd.uniform(0,600),rnd.uniform(0,600); w,h=rnd.uniform(100,500),rnd.uniform(100,500)
    if kind=='rect': return np.array([[x0,y0],[x0+w,y0],[x0+w,y0+h],[x0,y0+h]])
    if kind=='U':  # concave U shape
        t=w/3
        return np.array([[x0,y0],[x0+t,y0],[x0+t,y0+h*0.7],[x0+2*t,y0+h*0.7],[x0+2*t,y0],[x0+w,y0],[x0+w,y0+h],[x0,y0+h]])
    if kind=='bowtie': # self-touching
        return np.array([[x0,y0],[x0+w/2,y0+h/2],[x0+w,y0],[x0+w,y0+h],[x0+w/2,y0+h/2],[x0,y0+h]])
iss={}
n=0
for it in range(2000):
    regs=[RegionLayout('r%d'%i,rpoly(rnd.choice(['rect','U','bowtie']))) for i in range(int(rnd.integers(1,4)))]
    bls=[];hs=[];tls=[]
    for l in range(int(rnd.integers(1,6))):
        x0,y0=rnd.uniform(-50,900),rnd.uniform(-50,1100); L=rnd.uniform(1,700); ang=rnd.uniform(-0.3,0.3)
        k=int(rnd.integers(2,5))
        ts=np.linspace(0,1,k)
        b=np.stack([x0+ts*L*np.cos(ang), y0+ts*L*np.sin(ang)],1)
        h=[rnd.uniform(5,30),rnd.uniform(2,10)]
        bls.append(b);hs.append(h);tls.append(baseline_to_textline(b,h))
    out=assign_lines_to_regions(bls,hs,tls,regs)
    ids=[l.id for r in out for l in r.lines]
    if len(ids)!=len(set(ids)): iss.setdefault('dupid',[]).append(ids)
    for r in out:
        P=sg.Polygon(r.polygon)
        Pv=P if P.is_valid else P.convex_hull
        placed={int(l.id.split('-l')[1])-1:l for l in r.lines}
        for li,(b,t) in enumerate(zip(bls,tls)):
            B=sg.LineString(b)
            n+=1
            if li in placed:
                l=placed[li]
                if not Pv.buffer(1e-6).contains(sg.LineString(l.baseline)): iss.setdefault('baseline-outside',[]).append((it,li))
                if not B.buffer(1e-6).contains(sg.LineString(l.baseline)): iss.setdefault('baseline-notpiece',[]).append((it,li))
                lp=sg.Polygon(l.polygon)
                if not Pv.buffer(1e-6).contains(lp): iss.setdefault('poly-outside',[]).append((it,li))
                if Pv.contains(B) and B.length>2:
                    if not (np.allclose(l.baseline,b) or np.allclose(l.baseline,b[::-1])): iss.setdefault('inside-changed',[]).append((it,li,l.baseline.tolist(),b.tolist()))
                    elif np.allclose(l.baseline,b[::-1]) and not np.allclose(l.baseline,b): iss.setdefault('inside-reversed',[]).append((it,li))
                inter=Pv.intersection(B)
                if inter.geom_type=='MultiLineString':
                    longest=max(g.length for g in inter.geoms)
                    if abs(sg.LineString(l.baseline).length-longest)>1e-6: iss.setdefault('notlongest',[]).append((it,li))
            else:
                if Pv.contains(B) and B.length>2: iss.setdefault('inside-notplaced',[]).append((it,li))
            if not Pv.intersects(B) and li in placed: iss.setdefault('placed-nottouching',[]).append((it,li))
print(n)
for k,v in iss.items(): print(k,len(v),v[:2])
# debug
import sys
rnd=np.random.default_rng(0)
from pero_ocr.layout_engines.layout_helpers import mask_textline_by_region
for it in range(2000):
    regs=[RegionLayout('r%d'%i,rpoly(rnd.choice(['rect','U','bowtie']))) for i in range(int(rnd.integers(1,4)))]
    bls=[];hs=[];tls=[]
    for l in range(int(rnd.integers(1,6))):
        x0,y0=rnd.uniform(-50,900),rnd.uniform(-50,1100); L=rnd.uniform(1,700); ang=rnd.uniform(-0.3,0.3)
        k=int(rnd.integers(2,5))
        ts=np.linspace(0,1,k)
        b=np.stack([x0+ts*L*np.cos(ang), y0+ts*L*np.sin(ang)],1)
        h=[rnd.uniform(5,30),rnd.uniform(2,10)]
        bls.append(b);hs.append(h);tls.append(baseline_to_textline(b,h))
    if it in (12,84):
        li={12:3,84:0}[it]
        for r in regs:
            P=sg.Polygon(r.polygon); Pv=P if P.is_valid else P.convex_hull
            B=sg.LineString(bls[li])
            if Pv.contains(B):
                ti=Pv.intersection(sg.Polygon(tls[li]))
                print(it,li,'valid region',P.is_valid,'len',B.length,'textline valid',sg.Polygon(tls[li]).is_valid,'inter type',ti.geom_type, [g.geom_type for g in getattr(ti,'geoms',[])])
                print(mask_textline_by_region(bls[li],tls[li],r.polygon))
