import numpy as np, torch, os, warnings, io, contextlib
warnings.filterwarnings('ignore')
class StubParse(torch.nn.Module):
    """pointwise: out maps from image channels: ch0->asc height (x*40), ch1->desc height (x*20), ch2->baseline prob; endpoints 0; separators 0"""
    def __init__(self):
        super().__init__()
    def forward(self,x):
        n,c,h,w=x.shape
        z=torch.zeros((n,1,h,w),dtype=x.dtype)
        out=torch.cat([x[:,0:1]*40.0, x[:,1:2]*20.0, x[:,2:3], z, z],dim=1)
        return out, z
def make_parsenet(path):
    sm=torch.jit.script(StubParse().eval()); torch.jit.save(sm,path+'.cpu'); return path
if __name__=='__main__':
    from pero_ocr.layout_engines.cnn_layout_engine import LayoutEngine
    p=make_parsenet('/tmp/explore/parsenet.pt')
    with contextlib.redirect_stdout(io.StringIO()):
        eng=LayoutEngine(p,torch.device('cpu'),downsample=2,adaptive_downsample=False,detection_threshold=0.2)
    rnd=np.random.default_rng(0)
    # direct parse
    H,W=200,300
    maps=np.zeros((H,W,5),np.float32)
    ridges=[(30,20,250,12,4),(80,50,150,9,3),(140,10,290,14,5)]
    for y,x0,x1,a,d in ridges:
        maps[y,x0:x1+1,2]=1.0
        maps[y-1:y+2,x0:x1+1,0]=a; maps[y-1:y+2,x0:x1+1,1]=d
    for ds in (1,2,4):
        with contextlib.redirect_stdout(io.StringIO()):
            b,h,t=eng.parse(maps.copy(),ds)
        print('ds',ds,[(bb[0].tolist(),bb[-1].tolist(),hh) for bb,hh in zip(b,h)])
    # detect with rotation: image with vertical ridges
    Himg,Wimg=400,640
    for rot in (0,1,3):
        img=np.zeros((Himg,Wimg,3),np.uint8)
        if rot==0:
            lines=[(100,60,500),(250,100,600)]  # y,x0,x1
            for y,x0,x1 in lines:
                img[y-2:y+2,x0:x1,2]=255; img[y-6:y+6,x0:x1,0]=int(255*12/40); img[y-6:y+6,x0:x1,1]=int(255*4/20)
        else:
            lines=[(100,50,350),(400,80,300)]  # x,y0,y1 vertical
            for x,y0,y1 in lines:
                img[y0:y1,x-2:x+2,2]=255; img[y0:y1,x-6:x+6,0]=int(255*12/40); img[y0:y1,x-6:x+6,1]=int(255*4/20)
        with contextlib.redirect_stdout(io.StringIO()):
            pl,bl,hl,tl=eng.detect(img,rot=rot)
        print('rot',rot,'lines',[(b[0].tolist(),b[-1].tolist(),h) for b,h in zip(bl,hl)],'regions',[np.round(p).tolist() for p in pl])
