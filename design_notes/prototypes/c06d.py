import warnings; warnings.filterwarnings('ignore')
from c06 import *
from pero_ocr.core.arabic_helper import ArabicHelper
ah=ArabicHelper(); iss={}
ns='{http://www.loc.gov/standards/alto/ns-v2#}'
for seed in range(600):
    pl,exp=mk_page(seed)
    mlc=[0,0.3,0.99][seed%3]
    try: x=pl.to_altoxml_string(min_line_confidence=mlc)
    except Exception as e: iss.setdefault('EXC '+type(e).__name__,[]).append(seed); continue
    root=ET.fromstring(x.encode())
    lines=list(root.iter(ns+'TextLine'))
    confs=[l.transcription_confidence for l in pl.lines_iterator()]
    keep=[e for e,c in zip(exp,confs) if not (c is not None and c<mlc)]
    if len(lines)!=len(keep): iss.setdefault('drop',[]).append((seed,len(lines),len(keep),confs,mlc)); continue
    for le,(lid,t,mode,sep,script) in zip(lines,keep):
        got=[s.get('CONTENT') for s in le.iter(ns+'String')]
        want=t.split()
        if ah.is_arabic_line(t): want=[ah.label_form_to_string(w) for w in want]
        if got!=want: iss.setdefault('words',[]).append((seed,t,got,want,mode))
        for s in le.iter(ns+'String'):
            wc=s.get('WC')
            if wc is not None and not (0<=float(wc)<=1): iss.setdefault('wc',[]).append((seed,wc))
    # print space
    H,W=pl.page_size
    page=next(root.iter(ns+'Page')); ps=next(root.iter(ns+'PrintSpace'))
    blocks=list(root.iter(ns+'TextBlock'))
    g=lambda e,a:int(e.get(a))
    l=min(g(b,'HPOS') for b in blocks); t=min(g(b,'VPOS') for b in blocks)
    r=max(g(b,'HPOS')+g(b,'WIDTH') for b in blocks); bt=max(g(b,'VPOS')+g(b,'HEIGHT') for b in blocks)
    if (g(ps,'HPOS'),g(ps,'VPOS'),g(ps,'HPOS')+g(ps,'WIDTH'),g(ps,'VPOS')+g(ps,'HEIGHT'))!=(l,t,r,bt): iss.setdefault('printspace',[]).append((seed,(g(ps,'HPOS'),g(ps,'VPOS'),g(ps,'HPOS')+g(ps,'WIDTH'),g(ps,'VPOS')+g(ps,'HEIGHT')),(l,t,r,bt)))
    tm,lm,rm,bm=[next(root.iter(ns+n)) for n in('TopMargin','LeftMargin','RightMargin','BottomMargin')]
    if g(tm,'HEIGHT')!=t or g(lm,'WIDTH')!=l or g(rm,'HPOS')!=r or g(rm,'WIDTH')!=W-r or g(bm,'VPOS')!=bt or g(bm,'HEIGHT')!=H-bt: iss.setdefault('margins',[]).append(seed)
    # reimport
    l2=PageLayout(); l2.from_altoxml_string(x)
    re_words=[ln.transcription.split(' ') if ln.transcription else [] for ln in l2.lines_iterator()]
    ex_words=[[s.get('CONTENT') for s in le.iter(ns+'String')] for le in lines]
    if re_words!=ex_words: iss.setdefault('reimport',[]).append((seed,re_words[:2],ex_words[:2]))
for k,v in sorted(iss.items()): print(k,len(v)); print('    ',v[0])
