import numpy as np, warnings
warnings.filterwarnings('ignore')
from c06 import *
import random
def one(t, mode='peaky'):
    rnd=random.Random(0)
    pl=PageLayout(id='p',page_size=(500,800))
    reg=RegionLayout('r0',np.array([[10,10],[700,10],[700,300],[10,300]]))
    bl=np.array([[20,100],[690,100]],dtype=float); h=[20,5]
    pg=np.array([[20,80],[690,80],[690,105],[20,105]])
    tl=TextLine(id='l0',baseline=bl,polygon=pg,heights=h,transcription=t)
    lg,T=mk_logits(rnd,t,CH,mode); tl.logits=lg; tl.characters=CH; tl.logit_coords=[0,T]
    reg.lines.append(tl); pl.regions.append(reg)
    try:
        x=pl.to_altoxml_string()
        import re
        print(repr(t), re.findall(r'CONTENT="([^"]*)"',x), re.findall(r'WC="([^"]*)"',x))
    except Exception as e:
        print(repr(t),'EXC',repr(e))
for t in ['a 　 b','a  b','  a b','a b  ','a   b c',' a',"ab cd ef", "a \t b"]:
    one(t)
print(np.__version__)
try: print(np.quantile(np.array([]),.5))
except Exception as e: print('quantile empty',repr(e))
