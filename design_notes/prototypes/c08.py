import numpy as np, torch, warnings, copy
warnings.filterwarnings('ignore')
from scipy import sparse
from pero_ocr.core.layout import PageLayout, RegionLayout, TextLine
from pero_ocr.document_ocr.page_parser import PageDecoder
from pero_ocr.decoding.decoders import CTCPrefixLogRawNumpyDecoder, BLANK_SYMBOL
from pero_ocr.decoding.lm_wrapper import LMWrapper
from c03 import make_lm
from c02 import rand_lp
letters=['a','b','c']
def mkpage(seed,nlines=3):
    rnd=np.random.default_rng(seed)
    pl=PageLayout(id='p%d'%seed,page_size=(100,100))
    reg=RegionLayout('r',np.array([[0,0],[10,0],[10,10]]))
    for l in range(nlines):
        T=int(rnd.integers(2,7))
        lg=rnd.normal(size=(T,4))*rnd.choice([1,3,10])
        tl=TextLine(id='l%d'%l,logits=sparse.csc_matrix(lg),characters=letters,logit_coords=[0,T],transcription='abc'[:l+1])
        reg.lines.append(tl)
    pl.regions.append(reg)
    return pl
def run(decoder, seeds):
    out={}
    for s in seeds:
        pl=mkpage(s); decoder.process_page(pl)
        out.setdefault(s,[]).append([l.transcription for l in pl.lines_iterator()])
    return out
for carry in (False,True):
  for thr in (None,0.5):
    diffs=0;n=0
    for trial in range(60):
        lm=make_lm(letters,trial); w=LMWrapper(lm,letters,torch.device('cpu'))
        mk=lambda: PageDecoder(CTCPrefixLogRawNumpyDecoder(letters+[BLANK_SYMBOL],k=4,lm=w,lm_scale=1.0),line_confidence_threshold=thr,carry_h_over=carry)
        alone=run(mk(),[trial])[trial][0]
        after=run(mk(),[trial+1000,trial])[trial][0]
        twice=run(mk(),[trial,trial])[trial]
        n+=1
        if alone!=after or twice[0]!=twice[1] or twice[0]!=alone: diffs+=1
    print('carry',carry,'thr',thr,n,diffs)
