import numpy as np, torch, warnings, io, contextlib
warnings.filterwarnings('ignore')
from c18 import make_parsenet
from pero_ocr.layout_engines.cnn_layout_engine import LayoutEngine
p=make_parsenet('/tmp/explore/parsenet.pt')
with contextlib.redirect_stdout(io.StringIO()):
    eng=LayoutEngine(p,torch.device('cpu'),downsample=2,adaptive_downsample=False,detection_threshold=0.2)
rnd=np.random.default_rng(0)
st={'count':0,'n':0}; errs={'x0':[],'x1':[],'y':[],'asc':[],'desc':[]}
bad=[]
for it in range(300):
    H,W=int(rnd.integers(60,300)),int(rnd.integers(80,500))
    maps=np.zeros((H,W,5),np.float32)
    ridges=[]; y=int(rnd.integers(12,20))
    while y<H-25 and len(ridges)<8:
        x0=int(rnd.integers(3,W//2)); x1=int(rnd.integers(x0+6,W-3))
        slope=rnd.choice([0,0,rnd.uniform(-0.08,0.08)])
        a,d=rnd.uniform(3,14),rnd.uniform(1,6)
        xs=np.arange(x0,x1+1); ys=np.round(y+slope*(xs-x0)).astype(int)
        if ys.min()<8 or ys.max()>H-8: y+=20; continue
        maps[ys,xs,2]=rnd.uniform(0.7,1.0)
        for dy in(-2,-1,0,1,2): maps[ys+dy,xs,0]=a; maps[ys+dy,xs,1]=d
        if rnd.random()<0.5:
            maps[ys[0],max(0,x0-1):x0+1,3]=1.0; maps[ys[-1],x1:x1+2,3]=1.0
        ridges.append((x0,x1,ys[0],ys[-1],a,d)); y=int(max(ys.max(),y)+rnd.integers(15,40))
    ds=int(rnd.choice([1,2,3,4,8]))
    with contextlib.redirect_stdout(io.StringIO()):
        b,h,t=eng.parse(maps.copy(),ds)
    st['n']+=1
    if len(b)!=len(ridges): st['count']+=1; bad.append((it,len(b),len(ridges),ridges[:3])); continue
    for (x0,x1,y0,y1,a,d) in ridges:
        j=int(np.argmin([abs(bb[0,1]/ds-y0)+abs(bb[0,0]/ds-x0) for bb in b]))
        bb=b[j]/ds; hh=np.array(h[j])/ds
        errs['x0'].append(bb[0,0]-(x0-2)); errs['x1'].append(bb[-1,0]-(x1+2)); errs['y'].append(max(abs(bb[0,1]-y0),abs(bb[-1,1]-y1)))
        errs['asc'].append(hh[0]-a); errs['desc'].append(hh[1]-d)
print(st); 
for k,v in errs.items(): print(k,np.min(v),np.max(v))
for e in bad[:5]: print(e)
