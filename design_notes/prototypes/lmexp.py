import torch, warnings, configparser, json
warnings.filterwarnings('ignore')
from c03 import make_lm
from brnolm.language_models import language_model
letters=list('abc')
lm=make_lm(letters,0)
language_model.torchscript_export(lm,'/tmp/explore/lm.zip')
from pero_ocr.decoding import decoding_itf
cfg=configparser.ConfigParser(); cfg.read_dict({'DECODER':{'TYPE':'FAST-LOG-RAW','BEAM_SIZE':'4','LM_SCALE':'0.7','LM':'/tmp/explore/lm.zip','USE_CPU':'yes','CARRY_H_OVER':'yes'}})
dec=decoding_itf.decoder_factory(cfg['DECODER'],letters,torch.device('cpu'))
print(type(dec._lm._lm), dec._lm._lm._unused_prefix_len)
import numpy as np
from c02 import rand_lp
lp=rand_lp(np.random.default_rng(0),5,4,3)
boh,h=dec(lp,return_h=True); print([ (x.transcript,round(x.vis_sc,3),round(x.lm_sc,3)) for x in boh])
h2=dec._lm.add_line_end(h); print(type(h2._h), [t.shape for t in h2._h])
print(dec._lm.initial_h_from_line('ab')._h[0].shape)
