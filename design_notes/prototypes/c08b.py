import numpy as np, torch, warnings, io, contextlib
warnings.filterwarnings('ignore')
class StubParse2(torch.nn.Module):
    def __init__(self):
        super().__init__()
        self.k=torch.nn.Conv2d(1,1,kernel_size=(63,1),padding=(31,0),bias=False)
        with torch.no_grad(): self.k.weight.fill_(1.0)
    def forward(self,x):
        n,c,h,w=x.shape
        z=torch.zeros((n,1,h,w),dtype=x.dtype)
        band=(x[:,0:1]>0.5).to(x.dtype)
        tot=self.k(band)
        out=torch.cat([tot*0.75, tot*0.25, x[:,2:3], z, z],dim=1)
        return out, z
sm=torch.jit.script(StubParse2().eval()); torch.jit.save(sm,'/tmp/explore/parsenet2.pt.cpu')
from pero_ocr.layout_engines.cnn_layout_engine import LayoutEngine
def page(text_h, n=6, H=1200, W=900):
    img=np.zeros((H,W,3),np.uint8)
    for i in range(n):
        y=100+i*int(text_h*2.2)
        if y+text_h>H: break
        asc=int(text_h*0.75); desc=text_h-asc
        img[y-asc:y+desc,80:800,0]=255
        t=max(2,text_h//8)
        img[y-t:y+t,80:800,2]=255
    return img
def run(eng,img):
    with contextlib.redirect_stdout(io.StringIO()):
        p,b,h,t=eng.detect(img.copy(),rot=0)
    return [(np.round(bb[0]).tolist(),np.round(bb[-1]).tolist(),np.round(hh,1).tolist()) for bb,hh in zip(b,h)]
def mk():
    with contextlib.redirect_stdout(io.StringIO()):
        return LayoutEngine('/tmp/explore/parsenet2.pt',torch.device('cpu'),downsample=4,adaptive_downsample=True,detection_threshold=0.2)
A=page(40); B=page(110,n=4)
e=mk(); alone=run(e,A); print('alone ds',e.parsenet.last_downsample, alone[:2])
e=mk(); run(e,B); print('after B last ds',e.parsenet.last_downsample); after=run(e,A); print('A after B ds',e.parsenet.last_downsample, after[:2])
print('same' if alone==after else 'DIFFERENT')
