import re
from io import BytesIO
exec(open('/tmp/explore/c01.py').read().split("issues={}")[0])
bad=0;n=0
for seed in range(400):
    pl=mk(seed)
    if not pl.reading_order: continue
    n+=1
    orig=[r.id for r in pl.regions]
    exp=sorted(orig,key=lambda i: pl.reading_order.get(i,float('inf')))
    x1=pl.to_pagexml_string()
    written=re.findall(r'<TextRegion id="([^"]+)"',x1)
    l1=PageLayout(file=BytesIO(x1.encode()))
    held=[r.id for r in l1.regions]
    if written!=exp or held!=exp:
        bad+=1
        if bad<4: print(seed,orig,pl.reading_order,'written',written,'held',held,'exp',exp)
print(n,bad)
