import numpy as np, torch, warnings, io, contextlib
warnings.filterwarnings('ignore')
from pero_ocr.ocr_engine import transformer as T
from pero_ocr.ocr_engine.transformer_ocr_engine import TransformerEngineLineOCR
class LightFrontend(torch.nn.Module):
    def __init__(self,in_h,out_ch):
        super().__init__()
        with contextlib.redirect_stdout(io.StringIO()):
            self.blocks=T.VGG_conv_module(base_channels=4,conv_blocks=3,subsampling=(8,8),in_channels=3,layers_2d=[])
        self.agg=torch.nn.Sequential(torch.nn.Conv2d(self.blocks.out_channels,out_ch,kernel_size=(in_h//8,1)),torch.nn.LeakyReLU())
    def forward(self,x):
        return torch.squeeze(self.agg(self.blocks(x)),2)
def build(seed,H=16,dim=16,heads=2,dff=32,enc_layers=1,dec_layers=2,nsym=6):
    torch.manual_seed(seed)
    fe=LightFrontend(H,dim)
    enc=T.LineSelfAttentionEncoder(dropout=0.0,max_seq_len=2000,dim_model=dim,dim_ff=dff,nb_layers=enc_layers,nb_heads=heads)
    net=T.TransformerOCR(fe,enc,num_classes=nsym+2,dropout=0.0,nb_layers=dec_layers,dim_model=dim,dim_ff=dff,max_seq_len=2000,nb_heads=heads)
    for p in net.parameters():
        if p.dim()>1: torch.nn.init.normal_(p,std=0.5)
    net.eval()
    return net
def engine(net,nsym=6,H=16):
    e=object.__new__(TransformerEngineLineOCR)
    e.net=net; e.device=torch.device('cpu'); e.characters=list('abcdefghij'[:nsym])+['​','']
    e.sentence_boundary_ind=nsym; e.ignore_ind=nsym+1; e.line_px_height=H
    return e
if __name__=='__main__':
    net=build(0); e=engine(net)
    rnd=np.random.default_rng(0)
    x=rnd.integers(0,255,size=(3,3,16,128),dtype=np.uint8)
    with torch.no_grad():
        import time; t=time.time()
        outs,lg=e.transcribe_batch(x.copy(),is_cached=True); print('cached',time.time()-t,[o.tolist() for o in outs],lg.shape)
        outs2,lg2=e.transcribe_batch(x.copy(),is_cached=False); print('uncached',[o.tolist() for o in outs2],float((lg-lg2).abs().max()))
        # single
        for i in range(3):
            o1,l1=e.transcribe_batch(x[i:i+1].copy(),is_cached=True)
            n=min(l1.shape[1],lg.shape[1])
            print(i,o1[0].tolist()==outs[i].tolist(), float((l1[0,:n]-lg[i,:n]).abs().max()))
        # teacher forced
        steps=lg.shape[1]
        samples=lg.argmax(-1)  # B,T
        labels=torch.cat([torch.full((3,1),e.sentence_boundary_ind),samples[:,:-1]],1)
        full=net(torch.from_numpy(x).float()/255.0,labels)  # T,B,C
        print('forward vs cached',float((full.permute(1,0,2)-lg).abs().max()))
