import numpy as np, warnings, math
warnings.filterwarnings('ignore')
from scipy import sparse
from pero_ocr.core.layout import TextLine
from pero_ocr.core.confidence_estimation import get_line_confidence, get_letter_confidence
from pero_ocr.document_ocr.page_parser import PageParser, line_confident_enough
from pero_ocr.decoding.bag_of_hypotheses import BagOfHypotheses, logsumexp
from pero_ocr.core.force_alignment import force_align
rnd=np.random.default_rng(0); iss={}
for it in range(1500):
    T,C=int(rnd.integers(3,30)),int(rnd.integers(3,10)); L=int(rnd.integers(1,max(2,T//2)))
    lg=rnd.normal(size=(T,C))*rnd.choice([1,5,20]); lg[lg==0]=0.1
    labels=rnd.integers(0,C-1,size=L)
    line=TextLine(logits=sparse.csc_matrix(lg))
    try: c=get_line_confidence(line,labels)
    except ValueError: continue
    if c.min()<-1e-9 or c.max()>1+1e-9: iss.setdefault('range',[]).append(it)
    sh=rnd.normal(size=(T,1))*3
    line2=TextLine(logits=sparse.csc_matrix(lg+sh))
    c2=get_line_confidence(line2,labels)
    if not np.allclose(c,c2,atol=1e-9): iss.setdefault('shift',[]).append((it,np.abs(c-c2).max()))
    v=PageParser.compute_line_confidence(line); v2=PageParser.compute_line_confidence(line2)
    if not(0<=v<=1+1e-9) or abs(v-v2)>1e-9: iss.setdefault('plc',[]).append(it)
    ths=np.sort(rnd.random(5)); r=[line_confident_enough(lg,t) for t in ths]
    if any((not a) and b for a,b in zip(r,r[1:])): iss.setdefault('mono',[]).append(it)
    al=force_align(-(lg-logsumexp(lg,axis=1)[:,None]),list(labels),C-1)
    lc=get_letter_confidence(lg,al,C-1); lc2=get_letter_confidence(lg+sh,al,C-1)
    if max(lc)>1e-9 or not np.allclose(lc,lc2,atol=1e-9): iss.setdefault('letter',[]).append(it)
    b=BagOfHypotheses(lm_weight=float(rnd.choice([0,0.5,1,3])))
    for h in range(int(rnd.integers(1,10))): b.add('t%d'%h, float(-rnd.random()*rnd.choice([1,50,700])), None if it%3==0 else float(-rnd.random()*20))
    p=b.posteriors()
    if abs(logsumexp(p))>1e-9 or not(0<=b.confidence()<=1+1e-9): iss.setdefault('boh',[]).append(it)
print(iss)
