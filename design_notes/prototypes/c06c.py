import random, collections
from pero_ocr.core.arabic_helper import ArabicHelper
ah=ArabicHelper()
rnd=random.Random(5)
AR='ابتثجحخ'; LA='abcXYZ'; NU='0123'; DE=[' ',',','-','.','"',':']; ADE=['،','ً','ّ','»']; OT=['(',')','%','/','@']
def tok():
    k=rnd.choice(['ar','ar','la','nu','de','sp','ade','ot'])
    if k=='ar': return ''.join(rnd.choice(AR) for _ in range(rnd.randint(1,4)))
    if k=='la': return ''.join(rnd.choice(LA) for _ in range(rnd.randint(1,4)))
    if k=='nu': return ''.join(rnd.choice(NU) for _ in range(rnd.randint(1,3)))
    if k=='de': return rnd.choice(DE)
    if k=='sp': return ' '
    if k=='ade': return rnd.choice(ADE)
    return rnd.choice(OT)
n=0; notinv=[]; notperm=[]
for _ in range(20000):
    s=''.join(tok() for _ in range(rnd.randint(0,8)))
    r=ah.string_to_label_form(s)
    n+=1
    if collections.Counter(r)!=collections.Counter(s): notperm.append((s,r))
    rr=ah.label_form_to_string(r)
    if rr!=s: notinv.append((s,r,rr))
print(n,len(notperm),len(notinv))
notinv.sort(key=lambda x:len(x[0]))
for e in notinv[:15]: print([e[0]],[e[1]],[e[2]])
for e in notperm[:5]: print(e)
