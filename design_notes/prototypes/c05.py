import numpy as np, itertools, warnings
warnings.filterwarnings('ignore')
from pero_ocr.core.force_alignment import force_align, align_text
rnd=np.random.default_rng(0)
def collapse(seq,blank):
    out=[];prev=None
    for s in seq:
        if s!=prev and s!=blank: out.append(s)
        prev=s
    return out
def brute(cost,labels,blank):
    T,C=cost.shape; best=np.inf
    syms=sorted(set(labels)|{blank})
    for al in itertools.product(syms,repeat=T):
        if collapse(al,blank)==list(labels):
            c=sum(cost[t,s] for t,s in enumerate(al))
            best=min(best,c)
    return best
iss={};n=0;fail_ok=0
for it in range(3000):
    T=int(rnd.integers(1,7)); C=int(rnd.integers(2,5)); blank=int(rnd.integers(0,C))
    L=int(rnd.integers(1,T+2))
    nonblank=[c for c in range(C) if c!=blank]
    labels=[int(rnd.choice(nonblank if rnd.random()<0.95 else list(range(C)))) for _ in range(L)]
    kind=rnd.choice(['cont','int','inf'])
    if kind=='cont': cost=rnd.uniform(0,5,size=(T,C))
    elif kind=='int': cost=rnd.integers(0,3,size=(T,C)).astype(float)
    else:
        cost=rnd.uniform(0,5,size=(T,C)); cost[rnd.random(size=(T,C))<0.3]=np.inf
    n+=1
    ref=brute(cost,labels,blank) if blank not in labels else np.inf
    try:
        al=force_align(cost,labels,blank)
    except ValueError:
        if ref!=np.inf: iss.setdefault('false-failure',[]).append((it,T,labels,ref))
        else: fail_ok+=1
        continue
    if ref==np.inf: iss.setdefault('missed-failure',[]).append((it,T,labels,al)); continue
    if collapse(al,blank)!=labels: iss.setdefault('collapse',[]).append((it,labels,al))
    c=sum(cost[t,s] for t,s in enumerate(al))
    if abs(c-ref)>1e-9: iss.setdefault('notoptimal',[]).append((it,c,ref))
    pos=align_text(cost,np.array(labels),blank)
    if not np.all(np.diff(pos)>0): iss.setdefault('pos-notincreasing',[]).append((it,pos))
print(n,fail_ok,{k:(len(v),v[:3]) for k,v in iss.items()})
