import numpy as np, random, re, traceback, warnings
from scipy import sparse
import lxml.etree as ET
from pero_ocr.core.layout import PageLayout, RegionLayout, TextLine
warnings.filterwarnings('ignore')
CH=list("abcdefgh .,-")+[' ','\t',' ','　']+list('ابتثج')
def mk_logits(rnd, text, chars, mode, frames_per_char=3):
    C=len(chars)+1; blank=C-1
    idx=[chars.index(c) if c in chars else 0 for c in text]
    if mode=='short': T=max(1,len(text)//2)
    else: T=len(text)*frames_per_char+4
    lg=np.full((T,C),-12.0)
    if mode in('peaky','short'):
        lg[:,blank]=8.0
        for i,ci in enumerate(idx):
            t=2+i*frames_per_char
            if t<T: lg[t,ci]=12.0; lg[t,blank]=-3
    elif mode=='diffuse':
        lg=np.array([[rnd.uniform(-2,2) for _ in range(C)] for _ in range(T)])
    p=np.exp(lg-np.logaddexp.reduce(lg,axis=1)[:,None])
    lg=lg.copy(); lg[p<1e-4]=0
    return sparse.csc_matrix(lg), T
def mk_page(seed):
    rnd=random.Random(seed)
    H,W=rnd.randint(400,1200),rnd.randint(600,1500)
    pl=PageLayout(id='page%d'%seed,page_size=(H,W))
    exp=[]
    for r in range(rnd.randint(1,3)):
        x0=rnd.randint(0,W//3); y0=rnd.randint(0,H//3); x1=rnd.randint(x0+200,W); y1=rnd.randint(y0+100,H)
        reg=RegionLayout('r%d'%r,np.array([[x0,y0],[x1,y0],[x1,y1],[x0,y1]]))
        for l in range(rnd.randint(1,4)):
            by=rnd.randint(y0+30,y1-10); 
            bl=np.array([[x0+5,by],[ (x0+x1)//2, by+rnd.randint(-3,3)],[x1-5,by+rnd.randint(-5,5)]],dtype=float)
            h=[rnd.uniform(10,30),rnd.uniform(3,10)]
            pg=np.array([[x0+5,by-h[0]],[x1-5,by-h[0]],[x1-5,by+h[1]],[x0+5,by+h[1]]])
            nw=rnd.randint(1,4)
            script=rnd.choice(['latin','latin','arabic'])
            words=[]
            for _ in range(nw):
                if script=='arabic' and rnd.random()<0.7: words.append(''.join(rnd.choice('ابتثج') for _ in range(rnd.randint(1,4))))
                else: words.append(''.join(rnd.choice('abcdefgh.,-Z9') for _ in range(rnd.randint(1,5))))
            sepkind=rnd.choice(['single','single','double','lead','trail','nbsp','tab','thin','ideo','mixed'])
            seps={'single':' ','double':'  ','nbsp':' ','tab':'\t','thin':' ','ideo':'　'}
            if sepkind in seps: t=seps[sepkind].join(words)
            elif sepkind=='lead': t=' '+' '.join(words)
            elif sepkind=='trail': t=' '.join(words)+' '
            else: t=''.join(w+rnd.choice([' ',' ',' 　 ','\t ']) for w in words)
            mode=rnd.choice(['peaky','peaky','diffuse','short','absent','nocoords'])
            chars=[c for c in CH]
            tl=TextLine(id='r%d-l%d'%(r,l),baseline=bl,polygon=pg,heights=h,transcription=t)
            if mode!='absent':
                lg,T=mk_logits(rnd,t,chars,'peaky' if mode=='nocoords' else mode)
                tl.logits=lg; tl.characters=chars
                tl.logit_coords=[None,None] if mode=='nocoords' else [0,T]
            reg.lines.append(tl); exp.append((tl.id,t,mode,sepkind,script))
        pl.regions.append(reg)
    return pl,exp
if __name__=='__main__':
    from pero_ocr.core.arabic_helper import ArabicHelper
    ah=ArabicHelper()
    iss={}
    for seed in range(600):
        pl,exp=mk_page(seed)
        try:
            x=pl.to_altoxml_string()
        except Exception as e:
            iss.setdefault('EXC '+type(e).__name__,[]).append((seed,[e for e in exp])); continue
        root=ET.fromstring(x.encode())
        ns='{http://www.loc.gov/standards/alto/ns-v2#}'
        lines=list(root.iter(ns+'TextLine'))
        if len(lines)!=len(exp): iss.setdefault('linecount',[]).append(seed); continue
        for le,(lid,t,mode,sep,script) in zip(lines,exp):
            got=[s.get('CONTENT') for s in le.iter(ns+'String')]
            want=t.split()
            if ah.is_arabic_line(t) : want=[ah.label_form_to_string(w) for w in want]
            if got!=want:
                k='words mode=%s sep=%s'%(mode if mode in('absent','short','diffuse') else 'aligned',sep)
                iss.setdefault(k,[]).append((seed,t,got,want,script))
            for s in le.iter(ns+'String'):
                wc=s.get('WC')
                if wc is not None and not (0<=float(wc)<=1): iss.setdefault('wc',[]).append((seed,wc))
                for a in('HEIGHT','WIDTH','VPOS','HPOS'):
                    if not re.fullmatch(r'-?\d+',s.get(a)): iss.setdefault('geom',[]).append((seed,a,s.get(a)))
    for k,v in sorted(iss.items()): print(k,len(v)); print('    ',v[0])
