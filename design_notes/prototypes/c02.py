import numpy as np, itertools, math, random
from pero_ocr.decoding.decoders import CTCPrefixLogRawNumpyDecoder, BLANK_SYMBOL, select_relevant_logits
NEG=-np.inf
def lae(*xs):
    xs=[x for x in xs]
    m=max(xs)
    if m==NEG: return NEG
    return m+math.log(sum(math.exp(x-m) for x in xs))
def ctc_logprob(lp, seq):
    T,C=lp.shape; blank=C-1
    ext=[blank]
    for s in seq: ext+= [s,blank]
    S=len(ext)
    a=[NEG]*S
    a[0]=lp[0,blank]
    if S>1: a[1]=lp[0,ext[1]]
    for t in range(1,T):
        b=[NEG]*S
        for s in range(S):
            c=[a[s]]
            if s>0: c.append(a[s-1])
            if s>1 and ext[s]!=blank and ext[s]!=ext[s-2]: c.append(a[s-2])
            b[s]=lae(*c)+lp[t,ext[s]]
        a=b
    return lae(a[-1], a[-2]) if S>1 else a[-1]
def ref_beam(lp,k,selector=None, eps=1e-9):
    T,C=lp.shape; blank=C-1
    beam={():(0.0,NEG)}
    ambiguous=False
    for t in range(T):
        row=lp[t]
        sel=[c for c in range(C-1) if (selector is None or selector(row,c))]
        new={}
        def add(p,pb,pnb):
            if p in new:
                o=new[p]; new[p]=(lae(o[0],pb),lae(o[1],pnb))
            else: new[p]=(pb,pnb)
        for p,(pb,pnb) in beam.items():
            # blank
            add(p, lae(pb,pnb)+row[blank], NEG)
            if len(sel)==0: continue
            # continue last char
            if p and p[-1] in sel:
                add(p, NEG, pnb+row[p[-1]])
            for c in sel:
                if p and p[-1]==c:
                    add(p+(c,), NEG, pb+row[c])
                else:
                    add(p+(c,), NEG, lae(pb,pnb)+row[c])
        items=[(lae(*v),p,v) for p,v in new.items() if lae(*v)>NEG]
        items.sort(key=lambda x:-x[0])
        if len(items)>k and abs(items[k-1][0]-items[k][0])<eps: ambiguous=True
        beam={p:v for _,p,v in items[:k]}
    return {p:lae(*v) for p,v in beam.items()}, ambiguous
def rand_lp(rnd,T,C,peaky):
    x=rnd.normal(size=(T,C))*peaky
    x=x-np.logaddexp.reduce(x,axis=1)[:,None]
    return x
if __name__=='__main__':
    rnd=np.random.default_rng(0)
    letters=['a','b','c']
    stats={'n':0,'over':0,'dup':0,'beam_mismatch':0,'amb':0,'unpruned_mismatch':0}
    ex=[]
    for it in range(1500):
        T=rnd.integers(1,7); C=4; k=int(rnd.integers(1,9)); peaky=rnd.choice([1,3,8,20])
        lp=rand_lp(rnd,T,C,peaky)
        use_default=rnd.random()<0.5
        if use_default:
            dec=CTCPrefixLogRawNumpyDecoder(letters+[BLANK_SYMBOL],k=k)
            selector=lambda row,c: row[c]>-10
        else:
            dec=CTCPrefixLogRawNumpyDecoder(letters+[BLANK_SYMBOL],k=k,relevant_logits_selector=lambda l: np.nonzero(l>-np.inf))
            selector=lambda row,c: row[c]>-np.inf
        boh=dec(lp)
        stats['n']+=1
        hyps=[(h.transcript,h.vis_sc) for h in boh]
        if len(set(t for t,_ in hyps))!=len(hyps): stats['dup']+=1
        for tr,sc in hyps:
            true=ctc_logprob(lp,[letters.index(ch) for ch in tr])
            if sc>true+1e-9: stats['over']+=1; ex.append(('over',tr,sc,true))
        ref,amb=ref_beam(lp,k,selector)
        if amb: stats['amb']+=1; continue
        got={tuple(letters.index(ch) for ch in t):s for t,s in hyps}
        if set(got)!=set(ref) or any(abs(got[p]-ref[p])>1e-9 for p in ref):
            stats['beam_mismatch']+=1
            if len(ex)<5: ex.append(('beam',lp.tolist(),k,use_default,got,ref))
    print(stats); 
    for e in ex[:5]: print(e)
