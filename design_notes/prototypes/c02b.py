import numpy as np, warnings
warnings.filterwarnings('ignore')
from c02 import *
rnd=np.random.default_rng(5)
letters=['a','b','c']
st={'n':0,'over':0,'dup':0,'beam':0,'amb':0,'exc':0,'unpruned_missing':0,'unpruned_score':0}
ex=[]
def gen(kind,T,C):
    if kind=='onehot':
        p=np.zeros((T,C)); p[np.arange(T),rnd.integers(0,C,T)]=1.0
    elif kind=='zeros':
        p=rnd.random((T,C)); p[rnd.random((T,C))<0.4]=0; p[p.sum(1)==0,-1]=1
    elif kind=='allpruned':
        p=np.full((T,C),1e-6); p[:,-1]=1
        for t in range(T):
            if rnd.random()<0.5: p[t]=rnd.random(C)
    elif kind=='ties':
        p=rnd.integers(1,3,size=(T,C)).astype(float)
    elif kind=='const':
        p=np.ones((T,C))
    else:
        p=np.exp(rnd.normal(size=(T,C))*rnd.choice([1,3,8]))
    p=p/p.sum(1,keepdims=True)
    with np.errstate(divide='ignore'): return np.log(p)
import itertools
for it in range(3000):
    T=int(rnd.integers(1,7)); C=4; k=int(rnd.choice([1,2,3,5,8,500])); kind=rnd.choice(['onehot','zeros','allpruned','ties','const','rand'])
    lp=gen(kind,T,C)
    nonpr=rnd.random()<0.5
    if nonpr:
        dec=CTCPrefixLogRawNumpyDecoder(letters+[BLANK_SYMBOL],k=k,relevant_logits_selector=lambda l: np.nonzero(l>-np.inf)); selector=lambda row,c: row[c]>-np.inf
    else:
        dec=CTCPrefixLogRawNumpyDecoder(letters+[BLANK_SYMBOL],k=k); selector=lambda row,c: row[c]>-10
    st['n']+=1
    try: boh=dec(lp)
    except Exception as e:
        st['exc']+=1; ex.append(('exc',kind,k,repr(e)[:80],lp.tolist())); continue
    hyps=[(h.transcript,h.vis_sc) for h in boh]
    if len(set(t for t,_ in hyps))!=len(hyps): st['dup']+=1; ex.append(('dup',kind,k,hyps))
    for tr,sc in hyps:
        true=ctc_logprob(lp,[letters.index(ch) for ch in tr])
        if sc>true+1e-9: st['over']+=1; ex.append(('over',kind,tr,sc,true))
    ref,amb=ref_beam(lp,k,selector)
    got={tuple(letters.index(ch) for ch in t):s for t,s in hyps}
    if amb: st['amb']+=1
    else:
        if set(got)!=set(ref) or any(abs(got[p]-ref[p])>1e-9 for p in ref if np.isfinite(ref[p])): st['beam']+=1; ex.append(('beam',kind,k,nonpr,got,ref,lp.tolist()))
    if nonpr and k==500:
        # all nonzero transcripts
        allp={}
        for al in itertools.product(range(C),repeat=T):
            lpv=sum(lp[t,s] for t,s in enumerate(al))
            if lpv==-np.inf: continue
            col=[];prev=None
            for s in al:
                if s!=prev and s!=C-1: col.append(s)
                prev=s
            allp[tuple(col)]=np.logaddexp(allp.get(tuple(col),-np.inf),lpv)
        if set(allp)!=set(got): st['unpruned_missing']+=1; ex.append(('missing',kind,set(allp)-set(got),set(got)-set(allp)))
        elif any(abs(allp[p]-got[p])>1e-9 for p in allp): st['unpruned_score']+=1
print(st)
for e in ex[:6]: print(str(e)[:400])
