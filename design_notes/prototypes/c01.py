import numpy as np, re, random
from pero_ocr.core.layout import PageLayout, RegionLayout, TextLine, PAGEVersion
def strip_ts(x):
    return re.sub(r'<(Created|LastChange)>[^<]*</\1>', '', x)
def mk(seed):
    rnd=random.Random(seed)
    pl=PageLayout(id='p%d.jpg'%seed, page_size=(rnd.randint(1,3000), rnd.randint(1,3000)))
    for r in range(rnd.randint(0,4)):
        poly=np.array([[rnd.uniform(-50,3000), rnd.uniform(-50,3000)] for _ in range(rnd.randint(3,6))])
        reg=RegionLayout('r%d'%r, poly, region_type=rnd.choice([None,'paragraph','heading']))
        reg.transcription=rnd.choice([None,'','abc <&> "x"\n y'])
        for l in range(rnd.randint(0,3)):
            bl=np.array([[rnd.uniform(-5,3000), rnd.uniform(-5,3000)] for _ in range(rnd.randint(2,5))])
            pg=np.array([[rnd.uniform(-5,3000), rnd.uniform(-5,3000)] for _ in range(rnd.randint(3,8))])
            t=rnd.choice([None,'',' lead','trail ','a<b>&amp;"\'','שלום','é','\U0001F600 x','  ','\t tab','line\nbreak','cr\rx'])
            tl=TextLine(id='r%d-l%d'%(r,l), baseline=bl, polygon=pg,
                        heights=rnd.choice([None,[rnd.uniform(0,60),rnd.uniform(0,30)]]),
                        transcription=t, index=rnd.choice([None,l,l+5]),
                        transcription_confidence=rnd.choice([None,0.0,1.0,rnd.random()]))
            reg.lines.append(tl)
        pl.regions.append(reg)
    if rnd.random()<0.5 and pl.regions:
        ids=[r.id for r in pl.regions]; rnd.shuffle(ids)
        ids=ids[:rnd.randint(0,len(ids))]
        pl.reading_order={rid:i for i,rid in enumerate(ids)}
    return pl
issues={}
for seed in range(400):
    for ver in PAGEVersion:
        pl=mk(seed)
        try:
            x1=pl.to_pagexml_string(version=ver)
            l1=PageLayout(); l1.from_pagexml_string(x1)
            x2=l1.to_pagexml_string(version=ver)
            l2=PageLayout(); l2.from_pagexml_string(x2)
            x3=l2.to_pagexml_string(version=ver)
        except Exception as e:
            issues.setdefault('exc:'+repr(e)[:80],[]).append(seed); continue
        if strip_ts(x2)!=strip_ts(x3): issues.setdefault('fixpoint',[]).append((seed,ver))
        # compare
        if l1.id!=pl.id or tuple(l1.page_size)!=tuple(pl.page_size): issues.setdefault('pageattrs',[]).append(seed)
        exp_regions=pl.regions
        if [r.id for r in l1.regions]!=[r.id for r in exp_regions]: issues.setdefault('region-order',[]).append((seed,[r.id for r in l1.regions],[r.id for r in exp_regions],pl.reading_order))
        for ra,rb in zip(l1.regions, exp_regions):
            if ra.region_type!=rb.region_type: issues.setdefault('rtype',[]).append(seed)
            if ra.transcription!=rb.transcription: issues.setdefault('rtext',[]).append((seed,ra.transcription,rb.transcription))
            if not np.array_equal(ra.polygon, np.round(rb.polygon).astype(int)): issues.setdefault('rpoly',[]).append(seed)
            if [l.id for l in ra.lines]!=[l.id for l in rb.lines]: issues.setdefault('lineids',[]).append(seed); continue
            for la,lb in zip(ra.lines,rb.lines):
                if la.transcription!=lb.transcription: issues.setdefault('ltext',[]).append((seed,la.transcription,lb.transcription))
                if not np.array_equal(la.baseline, np.round(lb.baseline).astype(int)): issues.setdefault('lbase',[]).append(seed)
                if not np.array_equal(la.polygon, np.round(lb.polygon).astype(int)): issues.setdefault('lpoly',[]).append(seed)
                if lb.heights is not None and not np.allclose(la.heights, np.round(lb.heights,1),atol=1e-9): issues.setdefault('lheights',[]).append((seed,la.heights,lb.heights))
                if lb.index is not None and la.index!=lb.index: issues.setdefault('lindex',[]).append(seed)
                if lb.transcription is not None:
                    if (lb.transcription_confidence is None)!=(la.transcription_confidence is None) or (lb.transcription_confidence is not None and abs(la.transcription_confidence-round(lb.transcription_confidence,3))>1e-9): issues.setdefault('lconf',[]).append((seed,la.transcription_confidence,lb.transcription_confidence))
for k,v in issues.items(): print(k,len(v),v[:3])
