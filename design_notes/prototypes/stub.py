import torch, json, os, numpy as np
class StubNet(torch.nn.Module):
    """frame t depends on pixel columns [4t,4t+4): conv kernel (H,4) stride 4. zero input -> blank."""
    def __init__(self, H, C, seed=0):
        super().__init__()
        g=torch.Generator().manual_seed(seed)
        self.conv=torch.nn.Conv2d(3,C,kernel_size=(H,4),stride=(1,4))
        with torch.no_grad():
            self.conv.weight.copy_(torch.randn(self.conv.weight.shape,generator=g)*0.6)
            self.conv.bias.zero_(); self.conv.bias[C-1]=6.0
    def forward(self,x):
        y=self.conv(x)           # N,C,1,W/4
        return y[:,:,0,:]
def make_engine_dir(path, chars, H=16, seed=0):
    os.makedirs(path,exist_ok=True)
    net=StubNet(H,len(chars)+1,seed).eval()
    sm=torch.jit.script(net)
    torch.jit.save(sm,os.path.join(path,'ocr.pt.cpu'))
    cfg={'line_px_height':H,'line_vertical_scale':1.0,'checkpoint':'ocr.pt','characters':chars,'net_name':'stub'}
    json.dump(cfg,open(os.path.join(path,'ocr.json'),'w'))
    return os.path.join(path,'ocr.json')
if __name__=='__main__':
    from pero_ocr.ocr_engine.pytorch_ocr_engine import PytorchEngineLineOCR
    j=make_engine_dir('/tmp/explore/eng',list('abcdefgh '),H=16)
    eng=PytorchEngineLineOCR(j,torch.device('cpu'),batch_size=2)
    rnd=np.random.default_rng(0)
    lines=[rnd.integers(1,255,size=(16,int(w),3),dtype=np.uint8) for w in [40,100,33,7,1,500,1200,100]]
    tr,lg,co=eng.process_lines(lines)
    for t,l,c,li in zip(tr,lg,co,lines): print(li.shape[1],repr(t),l.shape,c)
