import numpy as np, torch, warnings, io, contextlib, configparser, itertools
warnings.filterwarnings('ignore')
from c18 import make_parsenet
from pero_ocr.core.layout import PageLayout, RegionLayout
from pero_ocr.document_ocr.page_parser import LayoutExtractor
make_parsenet('/tmp/explore/parsenet.pt')
def img_with(hl,vl,H=600,W=800):
    img=np.zeros((H,W,3),np.uint8)
    for y,x0,x1 in hl:
        img[y-2:y+2,x0:x1,2]=255; img[y-8:y+8,x0:x1,0]=int(255*12/40); img[y-8:y+8,x0:x1,1]=int(255*4/20)
    for x,y0,y1 in vl:
        img[y0:y1,x-2:x+2,2]=255; img[y0:y1,x-8:x+8,0]=int(255*12/40); img[y0:y1,x-8:x+8,1]=int(255*4/20)
    return img
res=[]
for dr,dl,ml,mo in itertools.product([True,False],[True,False],[True,False],[True,False]):
    cfg=configparser.ConfigParser()
    cfg.read_dict({'L':{'DETECT_REGIONS':str(dr),'DETECT_LINES':str(dl),'DETECT_STRAIGHT_LINES_IN_REGIONS':'no','MERGE_LINES':str(ml),'ADJUST_HEIGHTS':'no','MULTI_ORIENTATION':str(mo),'ADJUST_BASELINES':'no','USE_CPU':'yes','MODEL_PATH':'/tmp/explore/parsenet.pt','DOWNSAMPLE':'2','ADAPTIVE_DOWNSAMPLE':'no','DETECTION_THRESHOLD':'0.2','MAX_MEGAPIXELS':'5'}})
    with contextlib.redirect_stdout(io.StringIO()):
        le=LayoutExtractor(cfg['L'],torch.device('cpu'))
    img=img_with([(100,60,500),(200,60,500),(300,100,700)],[(650,50,550),(560,350,560)])
    pl=PageLayout(id='p',page_size=(600,800))
    pl.regions=[RegionLayout('r1',np.array([[20,20],[780,20],[780,580],[20,580]],dtype=float))]
    try:
        with contextlib.redirect_stdout(io.StringIO()):
            out=le.process_page(img,pl)
        ids=[l.id for l in out.lines_iterator()]
        res.append(((dr,dl,ml,mo),len(out.regions),ids,'DUP' if len(ids)!=len(set(ids)) else 'ok'))
    except Exception as e:
        res.append(((dr,dl,ml,mo),'EXC',repr(e)[:100]))
    le.pool.close()
for r in res: print(r)
