"""Shared workload builders: text lines with logits, simple page geometry."""
import numpy as np
from scipy import sparse


def path_for_labels(rng, labels, blank, min_extra=0, max_extra=6, lead=None):
    """a CTC frame path that collapses to labels: runs of each label separated by blank where needed / sometimes"""
    path = []
    for _ in range(int(rng.integers(0, 3)) if lead is None else lead):
        path.append(blank)
    prev = None
    for s in labels:
        if s == prev or rng.random() < 0.5:
            path += [blank] * int(rng.integers(1, 3))
        path += [s] * int(rng.integers(1, 4))
        prev = s
    path += [blank] * int(rng.integers(min_extra, max_extra + 1))
    return path


def logits_for_path(rng, path, C, mode='peaky', peak=12.0):
    """dense logits T x C realising `path` as arg-max path. modes: peaky (posterior ~1), noisy (<1), diffuse (near uniform), onehot"""
    T = len(path)
    if mode == 'diffuse':
        lg = rng.normal(size=(T, C)) * 0.3
        return lg
    if mode == 'onehot':
        lg = np.zeros((T, C))
        lg[np.arange(T), path] = 40.0
        return lg
    noise = 0.5 if mode == 'peaky' else 2.5
    lg = rng.normal(size=(T, C)) * noise
    lg[np.arange(T), path] += peak if mode == 'peaky' else float(rng.uniform(2.0, 5.0))
    lg[lg == 0] = 0.01
    return lg


def sparsify(lg, thr=1e-4):
    """what the OCR engine stores: logits whose posterior is below thr are dropped (stored as 0)"""
    p = np.exp(lg - np.logaddexp.reduce(lg, axis=1)[:, None])
    out = lg.copy()
    out[p < thr] = 0
    return sparse.csc_matrix(out)


def straight_line_geometry(rng, page_w=2000, page_h=1500, min_len=60):
    """baseline (2-4 points, nearly horizontal), heights, polygon of a text line inside the page"""
    x0 = float(rng.integers(20, page_w // 2))
    x1 = float(min(page_w - 20, x0 + rng.integers(min_len, page_w // 2)))
    y = float(rng.integers(80, page_h - 80))
    n = int(rng.integers(2, 5))
    xs = np.linspace(x0, x1, n)
    ys = y + np.cumsum(rng.integers(-2, 3, size=n)).astype(float)
    baseline = np.stack([xs, ys], axis=1)
    hu, hd = float(rng.integers(12, 45)), float(rng.integers(5, 20))
    poly = np.concatenate([baseline - [0, hu], (baseline + [0, hd])[::-1]], axis=0)
    return baseline, [hu, hd], poly


def same_polygon_shape(a, b, tol=1e-6):
    """Robust shape equality of two polygons given as point arrays: the boundaries lie within `tol` of each other (Hausdorff
    distance, vertex-to-segment, independent of start vertex / orientation / closing point) and the areas agree.
    (GEOS overlay operations such as symmetric_difference are NOT reliable for nearly coincident polygons: observed intersection
    area 0 for two parallelograms differing by 1e-13.)"""
    import shapely
    from shapely.geometry import LinearRing
    a = np.asarray(a, dtype=np.float64)
    b = np.asarray(b, dtype=np.float64)
    if len(a) < 3 or len(b) < 3:
        return False
    ra, rb = LinearRing(a), LinearRing(b)
    if shapely.hausdorff_distance(ra, rb) > tol:
        return False
    def area(p):
        x, y = p[:, 0], p[:, 1]
        return 0.5 * abs(np.dot(x, np.roll(y, -1)) - np.dot(y, np.roll(x, -1)))
    return abs(area(a) - area(b)) <= tol * (ra.length + 1.0)
