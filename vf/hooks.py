"""Attach / detach wrappers on live modules of the code under test (no source changes).

wrap(module_or_class, name, make_wrapper) replaces the attribute and additionally rebinds every alias
of the original function object found in already loaded pero_ocr.* / user_scripts modules
(`from m import f` binds the function before we wrap it; without rebinding the alias bypasses the monitor).
"""
import functools
import sys
import types

_installed = []


def _modules():
    for name, mod in list(sys.modules.items()):
        if mod is None:
            continue
        if name.startswith('pero_ocr') or name.startswith('user_scripts') or getattr(mod, '__vf_under_test__', False):
            yield mod


def wrap(owner, name, make_wrapper):
    orig = owner.__dict__[name] if isinstance(owner, type) else getattr(owner, name)
    raw = orig.__func__ if isinstance(orig, (staticmethod, classmethod)) else orig
    new = make_wrapper(raw)
    try:
        functools.update_wrapper(new, raw)
    except Exception:
        pass
    new.__vf_orig__ = raw
    if isinstance(orig, staticmethod):
        setattr(owner, name, staticmethod(new))
    elif isinstance(orig, classmethod):
        setattr(owner, name, classmethod(new))
    else:
        setattr(owner, name, new)
    _installed.append((owner, name, orig))
    n_alias = 0
    if isinstance(owner, types.ModuleType):
        for mod in _modules():
            if mod is owner:
                continue
            for k, v in list(vars(mod).items()):
                if v is raw:
                    setattr(mod, k, new)
                    _installed.append((mod, k, raw))
                    n_alias += 1
    return new, n_alias


def unwrap_all():
    while _installed:
        owner, name, orig = _installed.pop()
        setattr(owner, name, orig)


def recorder(log, site, summarize=None):
    """make_wrapper that appends (site, args, kwargs, result | exception) to `log` and passes everything through."""
    def make(f):
        def w(*a, **k):
            try:
                r = f(*a, **k)
            except BaseException as e:
                log.append({'site': site, 'args': a, 'kwargs': k, 'exc': e})
                raise
            log.append({'site': site, 'args': a, 'kwargs': k, 'result': r})
            return r
        return w
    return make
