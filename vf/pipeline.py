"""Drive the repository's batch script user_scripts/parse_folder.py offline: build a folder of pages (images + input PAGE XML),
a stub OCR engine, optionally a toy LM, a config file; run main() in-process (with optional crash injection) or as a real process."""
import contextlib
import importlib.util
import io
import os
import pickle
import re
import sys

import numpy as np

CHARS = list('abcdefgh ')


def load_parse_folder(repo):
    spec = importlib.util.spec_from_file_location('vf_parse_folder', os.path.join(repo, 'user_scripts', 'parse_folder.py'))
    PF = importlib.util.module_from_spec(spec)
    PF.__vf_under_test__ = True
    spec.loader.exec_module(PF)
    return PF


def make_batch(root, ids, seed=0, n_lines=2, decoder=None, lm_seed=None, ocr=True, img_size=(300, 400), foreign_image_names=()):
    """decoder: None | dict(carry=bool, threshold=float|None, beam=int, lm_scale=float)"""
    import cv2
    from pero_ocr.core.layout import PageLayout, RegionLayout, TextLine
    from vf import stubs
    os.makedirs(root + '/img', exist_ok=True)
    os.makedirs(root + '/xml', exist_ok=True)
    if ocr:
        stubs.make_ocr_engine_dir(root + '/eng', CHARS, H=16, seed=seed, blank_bias=1.0, wscale=1.5)
    rng = np.random.default_rng([seed, 77])
    for pid in ids:
        img = rng.integers(1, 255, size=img_size + (3,), dtype=np.uint8)
        cv2.imwrite('%s/img/%s.png' % (root, pid), img)
        # input PAGE XML written by another tool: Page/@imageFilename is not the file stem
        pl = PageLayout(id=('scan_%s.tif' % pid.strip('.')) if pid in foreign_image_names else pid, page_size=img_size)
        reg = RegionLayout('r0', np.array([[10, 10], [img_size[1] - 10, 10], [img_size[1] - 10, img_size[0] - 10], [10, img_size[0] - 10]]))
        for l in range(n_lines):
            y = 60 + l * 70
            x1 = min(img_size[1] - 20, 220 + l * 40 + int(rng.integers(0, 60)))
            reg.lines.append(TextLine(id='r0-l%d' % l, baseline=np.array([[20, y], [x1, y]]), polygon=np.array([[20, y - 20], [x1, y - 20], [x1, y + 8], [20, y + 8]]), heights=[20, 8]))
        pl.regions.append(reg)
        pl.to_pagexml('%s/xml/%s.xml' % (root, pid))
    cfg = ["[PAGE_PARSER]", "RUN_LAYOUT_PARSER = no", "RUN_LINE_CROPPER = yes", "RUN_OCR = %s" % ('yes' if ocr else 'no'),
           "RUN_DECODER = %s" % ('yes' if decoder else 'no'), "", "[LINE_CROPPER]", "INTERP = 2", "LINE_SCALE = 1", "LINE_HEIGHT = 16", ""]
    if ocr:
        cfg += ["[OCR]", "OCR_JSON = ./eng/ocr.json", "USE_CPU = yes", ""]
    if decoder:
        cfg += ["[DECODER]", "TYPE = FAST-LOG-RAW", "BEAM_SIZE = %d" % decoder.get('beam', 4), "LM_SCALE = %s" % decoder.get('lm_scale', 1.0), "USE_CPU = yes",
                "CARRY_H_OVER = %s" % ('yes' if decoder.get('carry') else 'no')]
        if decoder.get('threshold') is not None:
            cfg.append("CONFIDENCE_THRESHOLD = %s" % decoder['threshold'])
        if lm_seed is not None:
            from brnolm.language_models import language_model
            lm = stubs.make_lstm_lm(CHARS, lm_seed, dim=8, double=False)
            language_model.torchscript_export(lm, root + '/lm.zip')
            cfg.append("LM = ./lm.zip")
        cfg.append("")
    with open(root + '/config.ini', 'w') as f:
        f.write('\n'.join(cfg))
    return root + '/config.ini'


OPT = {'xml': 'xml', 'render': 'render', 'logits': 'logit', 'alto': 'alto', 'line': 'line', 'lmdb': 'line'}     # a line path containing 'lmdb' selects the LMDB export of the crops


CFG_KEY = {'xml': 'OUTPUT_XML_PATH', 'render': 'OUTPUT_RENDER_PATH', 'logits': 'OUTPUT_LOGIT_PATH', 'alto': 'OUTPUT_ALTO_PATH', 'line': 'OUTPUT_LINE_PATH', 'lmdb': 'OUTPUT_LINE_PATH'}


def argv_for(root, out, kinds, skip=True, extra=(), via_config=False):
    """via_config: the input and output folders are given in the [PARSE_FOLDER] section of the configuration file instead of on the command line"""
    if via_config:
        import hashlib
        cfg = open(root + '/config.ini').read() + '\n[PARSE_FOLDER]\nINPUT_IMAGE_PATH = %s/img\nINPUT_XML_PATH = %s/xml\n' % (root, root)
        cfg += ''.join('%s = %s/%s\n' % (CFG_KEY[k], out, k) for k in kinds)
        path = '%s/config_%s.ini' % (root, hashlib.sha1(cfg.encode()).hexdigest()[:10])
        if not os.path.exists(path):
            with open(path, 'w') as f:
                f.write(cfg.replace('%', '%%'))
        return ['parse_folder.py', '-c', path, '--device', 'cpu'] + (['-s'] if skip else []) + list(extra)
    argv = ['parse_folder.py', '-c', root + '/config.ini', '-i', root + '/img', '-x', root + '/xml', '--device', 'cpu']
    if skip:
        argv.append('-s')
    for k in kinds:
        argv += ['--output-%s-path' % OPT[k], '%s/%s' % (out, k)]
    return argv + list(extra)


def run_main(PF, argv, crash_exc=None):
    """run parse_folder.main() in this process; returns 'ok' | 'crash' | 'exit<code>' | 'EXC <type>: msg'"""
    old = sys.argv
    sys.argv = list(argv)
    res = 'ok'
    buf = io.StringIO()
    try:
        with contextlib.redirect_stdout(buf), contextlib.redirect_stderr(buf):
            try:
                PF.main()
            except SystemExit as e:
                res = 'exit%s' % e.code
            except Exception as e:
                res = 'EXC %s: %s' % (type(e).__name__, str(e)[:100])
            except BaseException as e:
                if crash_exc is not None and isinstance(e, crash_exc):
                    res = 'crash'
                else:
                    raise
    finally:
        sys.argv = old
    return res


def snapshot(out):
    """relative path -> digest of the normalised content (timestamps removed, logits by unpickled content)"""
    import hashlib
    snap = {}
    if not os.path.exists(out):
        return snap
    for d, _, fs in os.walk(out):
        if 'data.mdb' in fs:
            # an LMDB environment: compared by its records, not by the bytes of the B-tree file
            import lmdb
            env = lmdb.open(d, readonly=True, lock=False)
            with env.begin() as txn:
                for k, v in txn.cursor():
                    snap[os.path.join(os.path.relpath(d, out), k.decode())] = hashlib.sha1(bytes(v)).hexdigest()[:16]
            env.close()
            continue
        for f in fs:
            p = os.path.join(d, f)
            rel = os.path.relpath(p, out)
            b = open(p, 'rb').read()
            if rel.endswith('.xml'):
                b = re.sub(rb'<(Created|LastChange|processingDateTime)>[^<]*</\1>', b'', b)
            if rel.endswith('.logits'):
                try:
                    d_ = pickle.loads(b)
                    b = repr(sorted((str(k), (v.toarray().tobytes() if hasattr(v, 'toarray') else repr(v))) for k, v in d_.items())).encode()
                except Exception:
                    b = b'UNREADABLE ' + b
            snap[rel] = hashlib.sha1(b).hexdigest()[:16]
    return snap
