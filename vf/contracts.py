"""Cheap icontract postconditions on the real pero_ocr functions, installed in EVERY check process so that the workloads of
all properties feed them. A failing condition records a violation in the monitor (clause 'contract:<name>', attributed to C16 /
C05 semantics but reported by whichever check observed it) and raises MonitorViolation."""
import numpy as np

import icontract

from vf import hooks
from vf.core import MonitorViolation

_mon = None
TOL = 1e-9


def _rec(name, ok, detail):
    _mon.count('contract:' + name)
    if not ok:
        _mon.violation('contract:' + name, detail)
    return ok


def _arr(x):
    try:
        return np.asarray(x, dtype=np.float64)
    except Exception:
        return None


# named condition functions (argument names match the decorated functions'; `result` is the return value)
def line_confidence_in_unit_interval(line, labels, result):
    a = _arr(result)
    ok = a is not None and a.shape[0] == len(labels) and bool(np.all(a >= -TOL) and np.all(a <= 1 + TOL)) and not np.isnan(a).any()
    return _rec('get_line_confidence in [0,1], one per label', ok, {'result': result, 'labels': labels})


def letter_confidence_is_log_probability(result):
    a = _arr(result)
    ok = a is not None and bool(np.all(a <= TOL)) and not np.isnan(a).any()
    return _rec('get_letter_confidence <= 0 (log domain)', ok, {'result': result})


def worst_best_prob_in_unit_interval(result):
    ok = result is not None and -TOL <= float(result) <= 1 + TOL
    return _rec('compute_line_confidence in [0,1]', ok, {'result': result})


def get_prob_in_unit_interval(best_probs, result):
    p = _arr(list(best_probs))
    if p is None or p.size == 0 or p.min() < -TOL or p.max() > 1 + TOL:
        return True   # precondition not met: not judged
    ok = -TOL <= float(result) <= 1 + TOL
    return _rec('get_prob in [0,1]', ok, {'result': result})


def posteriors_normalised(self, result):
    a = _arr(result)
    if a is None or a.size == 0 or not np.isfinite(a).any():
        return True
    ok = bool(np.all(a <= TOL)) and abs(float(np.exp(a).sum()) - 1.0) <= 1e-9
    return _rec('posteriors <= 0 and sum to 1', ok, {'posteriors': result})


def bag_confidence_in_unit_interval(self, result):
    ok = -TOL <= float(result) <= 1 + TOL
    return _rec('bag confidence in [0,1]', ok, {'result': result})


def force_align_is_a_ctc_alignment(neg_logprobs, symbols_seq, blank_symbol, result, return_seq_positions=False):
    if return_seq_positions:
        pos = [int(p) for p in result if int(p) >= 0]
        ok = len(result) == neg_logprobs.shape[0] and all(a <= b for a, b in zip(pos, pos[1:])) and sorted(set(pos)) == list(range(len(symbols_seq)))
        return _rec('force_align positions cover every label in order', ok, {'result': result, 'labels': symbols_seq})
    out, prev = [], None
    for a in result:
        if a != prev and a != blank_symbol:
            out.append(int(a))
        prev = a
    ok = len(result) == neg_logprobs.shape[0] and out == [int(s) for s in symbols_seq]
    return _rec('force_align collapses to the labels, one symbol per frame', ok, {'result': result, 'labels': symbols_seq})


def full_logprobs_row_normalised(self, result):
    a = _arr(result)
    if a is None or a.ndim != 2 or a.shape[0] == 0:
        return True
    ok = bool(np.all(np.abs(np.logaddexp.reduce(a, axis=1)) <= 1e-4))
    return _rec('get_full_logprobs rows are normalised', ok, {'max_dev': float(np.abs(np.logaddexp.reduce(a, axis=1)).max())})


def _ensure(cond):
    def make(f):
        return icontract.ensure(cond, error=MonitorViolation)(f)
    return make


def install(mon):
    global _mon
    _mon = mon
    from pero_ocr.core import confidence_estimation as ce, force_alignment as fa, layout
    from pero_ocr.decoding import bag_of_hypotheses as boh
    from pero_ocr.document_ocr import page_parser as pp
    n = 0
    hooks.wrap(ce, 'get_line_confidence', _ensure(line_confidence_in_unit_interval)); n += 1
    hooks.wrap(ce, 'get_letter_confidence', _ensure(letter_confidence_is_log_probability)); n += 1
    hooks.wrap(pp.PageParser, 'compute_line_confidence', _ensure(worst_best_prob_in_unit_interval)); n += 1
    hooks.wrap(pp, 'get_prob', _ensure(get_prob_in_unit_interval)); n += 1
    hooks.wrap(boh.BagOfHypotheses, 'posteriors', _ensure(posteriors_normalised)); n += 1
    hooks.wrap(boh.BagOfHypotheses, 'confidence', _ensure(bag_confidence_in_unit_interval)); n += 1
    hooks.wrap(boh.BagOfHypotheses, 'transcript_confidence', _ensure(bag_confidence_in_unit_interval)); n += 1
    hooks.wrap(fa, 'force_align', _ensure(force_align_is_a_ctc_alignment)); n += 1
    hooks.wrap(layout.TextLine, 'get_full_logprobs', _ensure(full_logprobs_row_normalised)); n += 1
    mon.count('contracts_installed', n)
