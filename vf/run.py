"""Driver: ./check <ID> quick|thorough | --replay <file>  (see vf/core.py for the module protocol)."""
import json
import os
import re
import subprocess
import sys
import tempfile
import time

from vf import core

EXIT_HELD, EXIT_VIOLATION, EXIT_INCONCLUSIVE = 0, 1, 2
# self-tests against scratch trees redirect evidence/replay output so that /verif/evidence always describes /repo
OUT_DIR = os.environ.get('VERIF_OUT', core.VERIF_DIR)


def load_known(prop_id):
    """known_findings.txt: lines 'known: property=<id> <mechanism>' and 'fixed: property=<id> <commit> <what>'.
    Only 'known:' lines suppress anything, and only the exact mechanism they name."""
    known = []
    path = os.path.join(core.VERIF_DIR, 'known_findings.txt')
    if os.path.exists(path):
        for line in open(path, encoding='utf-8'):
            m = re.match(r'known:\s+property=(\S+)\s+(.*\S)\s*$', line)
            if m and m.group(1) == prop_id:
                known.append(m.group(2))
    return known


def merge(results):
    tot = {'counters': {}, 'per_class': {}, 'violations': [], 'violation_counts': {}, 'nontrivial': set(),
           'evaluations': 0, 'samples': [], 'inconclusive': [], 'ambiguous': 0, 'maxima': {}, 'worker_wall_s': []}
    for r in results:
        for k in ('counters', 'per_class', 'violation_counts'):
            for kk, v in r[k].items():
                tot[k][kk] = tot[k].get(kk, 0) + v
        for kk, v in r['maxima'].items():
            tot['maxima'][kk] = max(tot['maxima'].get(kk, float('-inf')), v)
        tot['violations'] += r['violations']
        tot['nontrivial'] |= set(r['nontrivial'])
        tot['evaluations'] += r['evaluations']
        tot['samples'] += r['samples']
        for w in r['inconclusive']:
            if w not in tot['inconclusive']:
                tot['inconclusive'].append(w)
        tot['ambiguous'] += r['ambiguous']
        tot['worker_wall_s'].append(round(r.get('wall_s', 0), 1))
    return tot


def run_workers(prop, prop_id, tier, seed, nshards, timeout, only_case=None):
    tmp = tempfile.mkdtemp(prefix='vfdrv_')
    procs = []
    for s in range(nshards):
        out = os.path.join(tmp, 'res_%d.json' % s)
        cmd = [sys.executable, '-m', 'vf.core', prop_id, tier, str(seed), str(s), str(nshards), out]
        if only_case is not None:
            cmd.append(str(only_case))
        err = open(os.path.join(tmp, 'err_%d.txt' % s), 'w')
        procs.append((s, out, err, subprocess.Popen(cmd, stdout=err, stderr=subprocess.STDOUT, cwd=core.VERIF_DIR)))
    results, problems = [], []
    deadline = time.time() + timeout
    for s, out, err, p in procs:
        try:
            p.wait(timeout=max(1, deadline - time.time()))
        except subprocess.TimeoutExpired:
            p.kill()
            p.wait()
            problems.append('shard %d: wall-clock watchdog (%ds) fired' % (s, timeout))
            continue
        finally:
            err.close()
        if p.returncode != 0 or not os.path.exists(out):
            tail = open(err.name, errors='replace').read()[-1500:]
            problems.append('shard %d: worker exited with status %s without a result: %s' % (s, p.returncode, tail))
            continue
        results.append(json.load(open(out)))
    import shutil
    shutil.rmtree(tmp, ignore_errors=True)
    return results, problems


def main(argv):
    if len(argv) < 2:
        print(__doc__)
        return 64
    prop_id = argv[0].upper()
    prop = core.load_prop(prop_id)
    seed = int(os.environ.get('VERIF_SEED', '0'))
    t0 = time.time()
    if argv[1] == '--replay':
        rec = json.load(open(argv[2]))
        seed = rec['seed']
        only = rec['case'] if rec['case'] is not None else -1
        results, problems = run_workers(prop, prop_id, rec.get('tier', 'quick'), seed, 1, 3600, only_case=only)
        tot = merge(results)
        for v in tot['violations']:
            print('REPLAY violation clause=%s mechanism=%s detail=%s' % (v['clause'], v['mechanism'], json.dumps(v['detail'])[:1500]))
        for p in problems:
            print('REPLAY problem:', p)
        same = [v for v in tot['violations'] if v['clause'] == rec['clause']]
        print('REPLAY %s: %s' % (prop_id, 'reproduced' if same else 'not reproduced'))
        return EXIT_VIOLATION if same else EXIT_HELD
    tier = argv[1]
    assert tier in ('quick', 'thorough'), tier
    jobs = int(os.environ.get('VERIF_JOBS', os.cpu_count() or 4))
    nshards = max(1, min(jobs, getattr(prop, 'SHARDS', {'quick': 4, 'thorough': 16})[tier]))
    timeout = getattr(prop, 'TIMEOUT', {'quick': 900, 'thorough': 5400})[tier]
    results, problems = run_workers(prop, prop_id, tier, seed, nshards, timeout)
    tot = merge(results)
    tot['inconclusive'] += problems
    for key in getattr(prop, 'REQUIRED', []):
        if tot['counters'].get(key, 0) == 0:
            tot['inconclusive'].append('deciding monitor never reached: counter %r is 0' % key)
    if tot['evaluations'] and tot['ambiguous'] > 0.5 * max(tot['evaluations'], tot['counters'].get('clauses_checked', 0)):
        tot['inconclusive'].append('more than half of the cases were ambiguous (%d)' % tot['ambiguous'])

    # classify violations
    known = load_known(prop_id)
    known_seen, unknown = {}, []
    for key, n in sorted(tot['violation_counts'].items()):
        clause, mech = key.split('|', 1)
        if mech in known:
            known_seen[mech] = known_seen.get(mech, 0) + n
        else:
            unknown.append((clause, mech, n))
    for mech in known:
        if mech in known_seen:
            print('KNOWN-FINDING: property=%s %s (observed %d times in this run)' % (prop_id, mech, known_seen[mech]))
        else:
            print('note: listed known finding not observed in this run: property=%s %s' % (prop_id, mech))
    nviol = 0
    if unknown:
        rdir = os.path.join(OUT_DIR, 'replay', prop_id)
        os.makedirs(rdir, exist_ok=True)
        printed = 0
        for clause, mech, n in unknown:
            nviol += n
            ws = [v for v in tot['violations'] if v['clause'] == clause and v['mechanism'] == mech]
            for k, v in enumerate(ws[:2]):
                path = os.path.join(rdir, '%s-s%d-%s-%d.json' % (tier, seed, re.sub(r'[^A-Za-z0-9]+', '_', clause + '_' + mech)[:60], k))
                with open(path, 'w') as f:
                    json.dump({'property': prop_id, 'tier': tier, 'seed': seed, 'case': v['case'], 'class': v['class'],
                               'clause': clause, 'mechanism': mech, 'count_in_run': n, 'detail': v['detail'],
                               'witness': v['witness']}, f, indent=1)
                if printed < 12:
                    print('VIOLATION property=%s replay=%s' % (prop_id, path))
                    print('  clause=%s mechanism=%s count=%d detail=%s' % (clause, mech, n, json.dumps(v['detail'])[:600]))
                    printed += 1
    wall = time.time() - t0
    # evidence
    cov = {
        'evaluations': tot['evaluations'] + tot['counters'].get('extra_evaluations', 0),
        'distinct_nontrivial': len(tot['nontrivial']),
        'rule': prop.RULE,
        'samples': tot['samples'][:5],
        'per_class': tot['per_class'],
        'monitor_counters': tot['counters'],
        'observed_maxima': tot['maxima'],
        'ambiguous_skipped': tot['ambiguous'],
        'inconclusive': tot['inconclusive'],
        'known_findings_observed': known_seen,
        'unlisted_violations': [{'clause': c, 'mechanism': m, 'count': n} for c, m, n in unknown],
        'shards': nshards, 'worker_wall_s': tot['worker_wall_s'],
        'repo': core.REPO,
    }
    if getattr(prop, 'EXHAUSTIVE_KEY', None) and tot['counters'].get(prop.EXHAUSTIVE_KEY, 0) > 0:
        cov['exhaustive'] = True
        cov['exhaustive_part'] = prop.EXHAUSTIVE_NOTE
    ev = {'property_id': prop_id, 'tier': tier, 'seed': seed, 'level': prop.LEVEL, 'coverage': cov,
          'assumptions': prop.ASSUMPTIONS, 'wall_s': round(wall, 2), 'violations': nviol,
          'verdict': 'violated' if nviol else ('inconclusive' if tot['inconclusive'] else 'held on what was observed')}
    os.makedirs(os.path.join(OUT_DIR, 'evidence'), exist_ok=True)
    with open(os.path.join(OUT_DIR, 'evidence', prop_id + '.json'), 'w') as f:
        json.dump(ev, f, indent=1, default=repr)
    print('%s %s seed=%d: %d cases (+%d extra), %d distinct non-trivial, %d ambiguous skipped, %d unlisted violations, %.1fs' % (
        prop_id, tier, seed, tot['evaluations'], tot['counters'].get('extra_evaluations', 0), len(tot['nontrivial']),
        tot['ambiguous'], nviol, wall))
    keys = sorted(tot['counters'])
    print('  monitors observed: ' + ', '.join('%s=%d' % (k, tot['counters'][k]) for k in keys if not k.startswith('ambiguous:'))[:1800])
    if nviol:
        return EXIT_VIOLATION
    if tot['inconclusive']:
        for w in tot['inconclusive']:
            print('INCONCLUSIVE property=%s %s' % (prop_id, w[:600]))
        return EXIT_INCONCLUSIVE
    return EXIT_HELD


if __name__ == '__main__':
    sys.exit(main(sys.argv[1:]))
