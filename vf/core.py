"""Core of the runtime-monitoring framework: monitors, verdicts, evidence, sharding.

A property module (vf/props/cXX.py) provides

    ID, TITLE, LEVEL ('exploration' | 'fault_enumeration'), RULE, ASSUMPTIONS, TECHNIQUE
    N = {'quick': int, 'thorough': int}        number of generated cases per tier
    CLASSES = [...]                            names of input classes (case i is of class CLASSES[i % len])
    setup(ctx)            optional, once per worker process (build stub models, install monitors)
    gen(rng, i, ctx)      -> case (any python object; deterministic function of (seed, i))
    check(case, mon, ctx) run the real code on the case under the monitors; report through `mon`
    describe(case)        -> small JSON-able description (for samples / replay files)
    extra(mon, ctx)       optional, run once in shard 0 (exhaustive enumerations, subprocess legs)
    REQUIRED = [...]      counters that must be > 0, else the verdict is INCONCLUSIVE
    classify(v)           optional: map a violation record to a mechanism string (known findings key on it)

The driver (vf/run.py) shards the case indices over worker subprocesses, merges their
results, classifies violations against /verif/known_findings.json, writes replay files and
evidence, prints the verdict lines and chooses the exit status (0 held / 1 violation / 2 inconclusive).
"""
import hashlib
import json
import os
import sys
import time
import traceback

import numpy as np

VERIF_DIR = os.path.dirname(os.path.dirname(os.path.abspath(__file__)))
REPO = os.environ.get('VERIF_REPO', '/repo')


class MonitorViolation(AssertionError):
    """Raised by contracts; always recorded in the monitor before it is raised."""


def jsonable(x, depth=0):
    """Best-effort conversion of a case / witness to something json.dump accepts (bounded size)."""
    if depth > 6:
        return repr(x)[:200]
    if x is None or isinstance(x, (bool, int, str)):
        return x
    if isinstance(x, float):
        if x != x or x in (float('inf'), float('-inf')):
            return repr(x)
        return x
    if isinstance(x, (np.integer,)):
        return int(x)
    if isinstance(x, (np.floating,)):
        return jsonable(float(x))
    if isinstance(x, np.ndarray):
        if x.size <= 400:
            return {'ndarray': jsonable(x.tolist(), depth + 1), 'dtype': str(x.dtype)}
        return {'ndarray_shape': list(x.shape), 'dtype': str(x.dtype),
                'sha1': hashlib.sha1(np.ascontiguousarray(x).tobytes()).hexdigest()[:16]}
    if isinstance(x, dict):
        return {str(k): jsonable(v, depth + 1) for k, v in list(x.items())[:200]}
    if isinstance(x, (list, tuple, set, frozenset)):
        x = list(x)
        out = [jsonable(v, depth + 1) for v in x[:200]]
        if len(x) > 200:
            out.append('... %d more' % (len(x) - 200))
        return out
    if isinstance(x, bytes):
        return {'bytes_len': len(x), 'sha1': hashlib.sha1(x).hexdigest()[:16]}
    return repr(x)[:300]


def case_hash(desc):
    return hashlib.sha1(json.dumps(jsonable(desc), sort_keys=True, default=repr).encode()).hexdigest()[:16]


def case_rng(seed, prop_id, i):
    """Deterministic generator for case i of a property under a seed."""
    return np.random.default_rng([int(seed), int(prop_id[1:]), int(i)])


class Monitor:
    """Collects what the monitors observed in one worker."""

    MAX_WITNESSES_PER_KEY = 3

    def __init__(self, prop_id, seed, tier):
        self.prop_id = prop_id
        self.seed = seed
        self.tier = tier
        self.counters = {}
        self.per_class = {}
        self.violations = []          # full records (bounded per (clause, mechanism))
        self.violation_counts = {}    # (clause, mechanism) -> count
        self.nontrivial = set()
        self.evaluations = 0
        self.samples = []
        self.inconclusive = []
        self.ambiguous = 0
        self.cur_case = None          # index of the case being checked
        self.cur_class = None
        self.cur_desc = None
        self.maxima = {}              # named maxima observed (calibration / evidence)
        self.observations = {}        # case index -> [(key, digest)] of observable outputs (see observe())

    # -- observation API used by property modules and monitors ---------------------------
    def count(self, key, n=1):
        self.counters[key] = self.counters.get(key, 0) + n

    def observe_max(self, key, value):
        try:
            v = float(value)
        except Exception:
            return
        if v == v and v > self.maxima.get(key, float('-inf')):
            self.maxima[key] = v

    def skip_ambiguous(self, clause):
        self.ambiguous += 1
        self.count('ambiguous:' + clause)

    def mark_nontrivial(self, desc=None):
        self.nontrivial.add(case_hash(desc if desc is not None else self.cur_desc))

    def violation(self, clause, detail, mechanism=None, witness=None):
        """Record a violation of `clause` (short id of the sentence of the statement that is refuted)."""
        mech = mechanism or clause
        key = clause + '|' + mech
        self.violation_counts[key] = self.violation_counts.get(key, 0) + 1
        if self.violation_counts[key] <= self.MAX_WITNESSES_PER_KEY:
            self.violations.append({
                'clause': clause, 'mechanism': mech, 'detail': jsonable(detail),
                'case': self.cur_case, 'class': self.cur_class,
                'witness': jsonable(witness if witness is not None else self.cur_desc),
            })

    def observe(self, key, value):
        """record an observable output of the code under test for the current case; the repeat pass at the end of a worker re-runs
        some cases in the same process and demands the same observations (catches state that leaks between calls: module-level
        caches, memoisation keyed too coarsely, buffers reused across calls)"""
        if self.cur_case is None:
            return
        h = hashlib.sha1(json.dumps(jsonable(value), sort_keys=True, default=repr).encode()).hexdigest()[:16]
        self.observations.setdefault(self.cur_case, []).append((key, h))

    def inconclusive_because(self, why):
        if why not in self.inconclusive:
            self.inconclusive.append(why)

    def result(self):
        return {
            'counters': self.counters, 'per_class': self.per_class, 'violations': self.violations,
            'violation_counts': self.violation_counts, 'nontrivial': sorted(self.nontrivial),
            'evaluations': self.evaluations, 'samples': self.samples, 'inconclusive': self.inconclusive,
            'ambiguous': self.ambiguous, 'maxima': self.maxima,
        }


class Ctx:
    """Per-worker context handed to property modules."""

    def __init__(self, prop_id, tier, seed, shard, nshards, tmpdir):
        self.prop_id, self.tier, self.seed = prop_id, tier, seed
        self.shard, self.nshards = shard, nshards
        self.tmpdir = tmpdir
        self.repo = REPO
        self.data = {}


def load_prop(prop_id):
    import importlib
    return importlib.import_module('vf.props.' + prop_id.lower())


def reseed_globals(seed, i):
    """The repository uses the global random / numpy.random state in a few places (height guessing,
    merge jitter); re-seed per case so a replay reproduces the execution."""
    import random
    random.seed((int(seed) * 1000003 + int(i)) & 0x7fffffff)
    np.random.seed((int(seed) * 1000003 + int(i)) & 0x7fffffff)
    try:
        import torch
        torch.manual_seed((int(seed) * 1000003 + int(i)) & 0x7fffffff)
    except Exception:
        pass


def run_case(prop, i, mon, ctx):
    rng = case_rng(ctx.seed, prop.ID, i)
    classes = getattr(prop, 'CLASSES', None) or ['default']
    mon.cur_case = i
    mon.cur_class = classes[i % len(classes)]
    mon.cur_desc = None
    reseed_globals(ctx.seed, i)
    try:
        case = prop.gen(rng, i, ctx)
    except Exception as e:   # a generator failure is a harness error: visible, never silent, and does not kill the shard
        mon.evaluations += 1
        mon.violation('harness:exception', {'exception': repr(e)[:300], 'trace': traceback.format_exc()[-1200:]}, mechanism='workload generator failed ' + type(e).__name__)
        return None
    try:
        mon.cur_desc = prop.describe(case) if hasattr(prop, 'describe') else jsonable(case)
    except Exception:
        mon.cur_desc = repr(case)[:500]
    mon.evaluations += 1
    mon.per_class[mon.cur_class] = mon.per_class.get(mon.cur_class, 0) + 1
    if len(mon.samples) < 2:
        mon.samples.append({'case': i, 'class': mon.cur_class, 'input': jsonable(mon.cur_desc)})
    try:
        prop.check(case, mon, ctx)
    except MonitorViolation:
        pass   # already recorded by the contract that raised it
    except RecursionError as e:
        mon.violation(raised_where(e), {'exception': repr(e)[:300]}, mechanism='RecursionError escaped')
    except Exception as e:  # an exception escaping check() is a harness or repository error: never silent
        mon.violation(raised_where(e), {'exception': repr(e)[:500], 'trace': traceback.format_exc()[-1500:]},
                      mechanism='unexpected exception ' + type(e).__name__)
    return case


def raised_where(e):
    """clause name for an exception that escaped a check: raised inside the repository (the code under test) or inside the harness"""
    tb = traceback.extract_tb(e.__traceback__)
    own = os.path.join(VERIF_DIR, '')
    inner = next((f.filename for f in reversed(tb) if f.filename.startswith(os.path.join(REPO, '')) or f.filename.startswith(own)), '')
    return 'code-under-test-raises' if inner.startswith(os.path.join(REPO, '')) and not inner.startswith(own) else 'harness:exception'


def worker_main(prop_id, tier, seed, shard, nshards, out_path, only_case=None):
    import faulthandler
    import tempfile
    import shutil
    faulthandler.enable()
    prop = load_prop(prop_id)
    tmpdir = tempfile.mkdtemp(prefix='vf_%s_' % prop_id)
    ctx = Ctx(prop_id, tier, seed, shard, nshards, tmpdir)
    mon = Monitor(prop_id, seed, tier)
    t0 = time.time()
    try:
        if getattr(prop, 'CONTRACTS', True):
            from vf import contracts
            contracts.install(mon)
        if hasattr(prop, 'setup'):
            prop.setup(ctx)
        if only_case is not None and only_case >= 0:
            run_case(prop, only_case, mon, ctx)
        else:
            n = prop.N[tier] if only_case is None else 0
            for i in range(shard, n, nshards):
                run_case(prop, i, mon, ctx)
            # repeat pass: the first cases of this shard once more, in the same process, after everything else ran
            first = [i for i in range(shard, n, nshards)][:getattr(prop, 'REPEAT', 12)]
            if first and mon.observations and only_case is None:
                before = {i: list(mon.observations.get(i, [])) for i in first}
                saved = (mon.counters, mon.per_class, mon.evaluations, mon.samples, mon.nontrivial, mon.ambiguous, mon.violations, mon.violation_counts)
                mon.counters, mon.per_class, mon.samples, mon.nontrivial, mon.violations, mon.violation_counts = {}, {}, [], set(), [], {}
                for i in first:
                    mon.observations.pop(i, None)
                    run_case(prop, i, mon, ctx)
                again = {i: list(mon.observations.get(i, [])) for i in first}
                (mon.counters, mon.per_class, mon.evaluations, mon.samples, mon.nontrivial, mon.ambiguous, mon.violations, mon.violation_counts) = saved
                for i in first:
                    mon.count('repeat_pass_cases')
                    if before[i] != again[i]:
                        diff = [a[0] for a, b in zip(before[i], again[i]) if a != b] or ['number of observations']
                        mon.cur_case, mon.cur_class, mon.cur_desc = i, 'repeat_pass', {'case': i}
                        mon.violation('same-input-same-result-within-one-process', {'note': 'the case was run twice in the same worker process (at the start and after all other cases) and the code under test '
                                      'returned different results', 'differing_observations': diff[:6]})
            if hasattr(prop, 'extra'):
                mon.cur_case, mon.cur_class, mon.cur_desc = None, 'extra', None
                try:
                    prop.extra(mon, ctx)
                except MonitorViolation:
                    pass
                except Exception as e:
                    mon.violation('harness:exception', {'exception': repr(e)[:500], 'trace': traceback.format_exc()[-1500:]},
                                  mechanism='unexpected exception in extra ' + type(e).__name__)
        if hasattr(prop, 'teardown'):
            prop.teardown(mon, ctx)
    finally:
        shutil.rmtree(tmpdir, ignore_errors=True)
    res = mon.result()
    res['wall_s'] = time.time() - t0
    with open(out_path, 'w') as f:
        json.dump(res, f, default=repr)


if __name__ == '__main__':
    a = sys.argv[1:]
    worker_main(a[0], a[1], int(a[2]), int(a[3]), int(a[4]), a[5], int(a[6]) if len(a) > 6 else None)
