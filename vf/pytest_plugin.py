"""pytest plugin: run the repository's own tests with the vf contracts installed (python -m pytest -p vf.pytest_plugin).
A contract that fires there is either too strict or a defect the tests do not assert. Result is written to $VF_PLUGIN_OUT."""
import json
import os

from vf import core

_mon = None


def pytest_configure(config):
    global _mon
    _mon = core.Monitor('C16', 0, 'quick')
    from vf import contracts
    contracts.install(_mon)


def pytest_runtest_setup(item):
    if _mon is not None:
        _mon.cur_desc = {'repository_test': item.nodeid}


def pytest_sessionfinish(session, exitstatus):
    out = os.environ.get('VF_PLUGIN_OUT')
    if out and _mon is not None:
        with open(out, 'w') as f:
            json.dump({'counters': _mon.counters, 'violations': _mon.violations, 'violation_counts': _mon.violation_counts}, f, default=repr)
