"""Textbook O(n*m) edit distance and brute-force substring distance (independent of the code under test)."""


def ref_lev(a, b, sc=1, ic=1, dc=1):
    """min cost of turning a (source) into b (target): delete source symbol dc, insert target symbol ic, substitute sc."""
    prev = [j * ic for j in range(len(b) + 1)]
    for i in range(1, len(a) + 1):
        cur = [i * dc] + [0] * len(b)
        for j in range(1, len(b) + 1):
            cur[j] = min(prev[j] + dc, cur[j - 1] + ic, prev[j - 1] + (0 if a[i - 1] == b[j - 1] else sc))
        prev = cur
    return prev[-1]


def ref_substring(longer, shorter):
    """min over all substrings s of `longer` of unit-cost distance(s, shorter)."""
    best = None
    n = len(longer)
    for i in range(n + 1):
        for j in range(i, n + 1):
            d = ref_lev(longer[i:j], shorter)
            if best is None or d < best:
                best = d
    return best


def pairs_cost(pairs, sc=1, ic=1, dc=1, empty=None):
    """cost of an alignment given as (source_symbol | empty, target_symbol | empty) pairs"""
    c = 0
    for x, y in pairs:
        if x is empty and y is empty:
            return None
        if x is empty:
            c += ic
        elif y is empty:
            c += dc
        elif x != y:
            c += sc
    return c
