"""Independent oracles for CTC forced alignment: O(T*L) DP over (frame, label index, on-blank?) and brute force."""
import itertools
import math


def collapse(path, blank):
    out, prev = [], None
    for a in path:
        if a != prev and a != blank:
            out.append(int(a))
        prev = a
    return out


def min_cost_dp(cost, labels, blank):
    """cost: list of rows; minimal total cost of a frame labelling that collapses to `labels` (math.inf if none finite)."""
    T, L = len(cost), len(labels)
    if blank in labels:
        return math.inf
    INF = math.inf
    # state (k, b): k labels completely emitted; b=1: currently on label k-1 (last frame emitted it), b=0: currently on blank / start
    # we process frame by frame; cur[(k,b)] = best cost so far
    cur = {(0, 0): 0.0}
    start = True
    for t in range(T):
        nxt = {}
        for (k, b), c in cur.items():
            if c == INF:
                continue
            # emit blank
            v = c + cost[t][blank]
            if v < nxt.get((k, 0), INF):
                nxt[(k, 0)] = v
            # repeat current label
            if b == 1:
                v = c + cost[t][labels[k - 1]]
                if v < nxt.get((k, 1), INF):
                    nxt[(k, 1)] = v
            # start next label: allowed from blank/start always; from a label only if different
            if k < L and (b == 0 or labels[k] != labels[k - 1]):
                v = c + cost[t][labels[k]]
                if v < nxt.get((k + 1, 1), INF):
                    nxt[(k + 1, 1)] = v
        cur = nxt
    return min(cur.get((L, 0), INF), cur.get((L, 1), INF))


def min_cost_brute(cost, labels, blank, limit=20000):
    T, C = len(cost), len(cost[0])
    if C ** T > limit:
        return None
    best = math.inf
    labels = [int(x) for x in labels]
    for path in itertools.product(range(C), repeat=T):
        if collapse(path, blank) == labels:
            c = sum(cost[t][a] for t, a in enumerate(path))
            if c < best:
                best = c
    return best
