"""Independent CTC oracles: forward recursion, brute-force transcript table, dictionary-based prefix beam search."""
import itertools
import math

import numpy as np

NEG = -math.inf


def lae(*xs):
    m = max(xs)
    if m == NEG:
        return NEG
    return m + math.log(sum(math.exp(x - m) for x in xs))


def ctc_logprob(lp, seq):
    """log-sum over all frame alignments of lp (T x C, blank last) that collapse to seq"""
    T, C = lp.shape
    blank = C - 1
    ext = [blank]
    for s in seq:
        ext += [s, blank]
    S = len(ext)
    a = [NEG] * S
    a[0] = lp[0, blank]
    if S > 1:
        a[1] = lp[0, ext[1]]
    for t in range(1, T):
        b = [NEG] * S
        for s in range(S):
            c = [a[s]]
            if s > 0:
                c.append(a[s - 1])
            if s > 1 and ext[s] != blank and ext[s] != ext[s - 2]:
                c.append(a[s - 2])
            b[s] = lae(*c) + lp[t, ext[s]]
        a = b
    return lae(a[-1], a[-2]) if S > 1 else a[-1]


def all_transcripts(lp):
    """brute force: transcript -> log-probability, over all C^T alignments of non-zero probability"""
    T, C = lp.shape
    out = {}
    for al in itertools.product(range(C), repeat=T):
        v = sum(lp[t, s] for t, s in enumerate(al))
        if v == NEG:
            continue
        col, prev = [], None
        for s in al:
            if s != prev and s != C - 1:
                col.append(s)
            prev = s
        key = tuple(col)
        out[key] = np.logaddexp(out.get(key, NEG), v)
    return out


def ref_beam(lp, k, selector, eps=1e-9, lm=None, lm_scale=1.0, bonus=0.0):
    """frame-synchronous prefix beam search keeping the k best prefixes after every frame.
    selector(row, c) -> may symbol c extend / continue at this frame.  lm(prefix tuple) -> LM log score of the prefix (without bonus).
    Returns ({prefix: visual score}, ambiguous) where ambiguous = a tie (within eps) at a pruning boundary occurred."""
    T, C = lp.shape
    blank = C - 1
    beam = {(): (0.0, NEG)}
    ambiguous = False
    lm_cache = {}

    def lm_total(p):
        if lm is None:
            return 0.0
        if p not in lm_cache:
            lm_cache[p] = lm(p) + bonus * len(p)
        return lm_scale * lm_cache[p]

    for t in range(T):
        row = lp[t]
        sel = [c for c in range(C - 1) if selector(row, c)]
        new = {}

        def add(p, pb, pnb):
            if p in new:
                o = new[p]
                new[p] = (lae(o[0], pb), lae(o[1], pnb))
            else:
                new[p] = (pb, pnb)
        for p, (pb, pnb) in beam.items():
            add(p, lae(pb, pnb) + row[blank], NEG)
            if not sel:
                continue
            if p and p[-1] in sel:
                add(p, NEG, pnb + row[p[-1]])
            for c in sel:
                if p and p[-1] == c:
                    add(p + (c,), NEG, pb + row[c])
                else:
                    add(p + (c,), NEG, lae(pb, pnb) + row[c])
        if not sel:
            # the implementation does not re-rank on frames without candidate symbols
            beam = {p: v for p, v in new.items()}
            continue
        items = [(lae(*v) + lm_total(p), p, v) for p, v in new.items() if lae(*v) > NEG]
        items = [it for it in items if it[0] > NEG]
        items.sort(key=lambda x: -x[0])
        if len(items) > k and abs(items[k - 1][0] - items[k][0]) < eps:
            ambiguous = True
        beam = {p: v for _, p, v in items[:k]}
    return {p: lae(*v) for p, v in beam.items()}, ambiguous
