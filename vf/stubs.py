"""Stub networks written by the harness and loaded through the repository's REAL loading paths."""
import json
import os

import numpy as np


def make_ocr_engine_dir(path, chars, H=16, seed=0, blank_bias=6.0, wscale=0.6, masked=(), embed_num=None, embed_id=None, base_bias=0.0, width_sensitive=False):
    """TorchScript Conv2d(3, C, (H,4), stride (1,4)): frame t depends on pixel columns [4t, 4t+4) only; all-zero
    padding decodes to blank (blank bias). Saved as <ckpt>.cpu + JSON, loadable by PytorchEngineLineOCR.__init__.
    masked: symbol indices whose logit is always -inf (a model with a restricted alphabet).
    embed_num: a two-input network (image, embedding id) with an `embeddings_layer` adding a per-id bias to every frame."""
    import torch

    if embed_num is not None:
        class EmbNet(torch.nn.Module):
            def __init__(self, H, C, seed):
                super().__init__()
                g = torch.Generator().manual_seed(seed)
                self.conv = torch.nn.Conv2d(3, C, kernel_size=(H, 4), stride=(1, 4))
                self.embeddings_layer = torch.nn.Embedding(embed_num + 1, C)
                with torch.no_grad():
                    self.conv.weight.copy_(torch.randn(self.conv.weight.shape, generator=g) * wscale)
                    self.conv.bias.zero_()
                    self.conv.bias[C - 1] = blank_bias
                    # non-positive per-id biases on the characters, none on blank: all-zero padding still decodes to blank for every id
                    self.embeddings_layer.weight.copy_(-torch.abs(torch.randn(self.embeddings_layer.weight.shape, generator=g)) * 3.0)
                    self.embeddings_layer.weight[:, C - 1] = 0.0

            def forward(self, x, ids):
                return self.conv(x)[:, :, 0, :] + self.embeddings_layer(ids)[:, :, None]

        os.makedirs(path, exist_ok=True)
        net = EmbNet(H, len(chars) + 1, seed).eval()
        torch.jit.save(torch.jit.script(net), os.path.join(path, 'ocr.pt.cpu'))
        cfg = {'line_px_height': H, 'line_vertical_scale': 1.0, 'checkpoint': 'ocr.pt', 'characters': list(chars), 'net_name': 'stub', 'embed_num': embed_num, 'embed_id': embed_id}
        with open(os.path.join(path, 'ocr.json'), 'w', encoding='utf8') as f:
            json.dump(cfg, f)
        return os.path.join(path, 'ocr.json'), net

    class StubNet(torch.nn.Module):
        def __init__(self, H, C, seed):
            super().__init__()
            g = torch.Generator().manual_seed(seed)
            self.conv = torch.nn.Conv2d(3, C, kernel_size=(H, 4), stride=(1, 4))
            self.width_gain = 3.0 if width_sensitive else 0.0
            with torch.no_grad():
                self.conv.weight.copy_(torch.randn(self.conv.weight.shape, generator=g) * wscale)
                self.conv.bias.zero_()
                self.conv.bias += base_bias                      # a common offset of all class scores (the posteriors do not depend on it)
                self.conv.bias[C - 1] = base_bias + blank_bias
                for m in masked:
                    self.conv.bias[m] = float('-inf')

        def forward(self, x):
            y = self.conv(x)[:, :, 0, :]
            # (for history checks, gain 0 otherwise) every score also depends on the width the batch was padded to, as with a network that normalises over the whole input
            w = float(x.shape[3])
            y = y + torch.sin(torch.arange(y.shape[1], dtype=torch.float32) * w * 0.013)[None, :, None] * self.width_gain
            return y

    os.makedirs(path, exist_ok=True)
    net = StubNet(H, len(chars) + 1, seed).eval()
    torch.jit.save(torch.jit.script(net), os.path.join(path, 'ocr.pt.cpu'))
    cfg = {'line_px_height': H, 'line_vertical_scale': 1.0, 'checkpoint': 'ocr.pt', 'characters': list(chars), 'net_name': 'stub'}
    with open(os.path.join(path, 'ocr.json'), 'w', encoding='utf8') as f:
        json.dump(cfg, f)
    return os.path.join(path, 'ocr.json'), net


def load_ocr_engine(path, chars, H=16, seed=0, batch_size=8, **kw):
    import torch
    from pero_ocr.ocr_engine.pytorch_ocr_engine import PytorchEngineLineOCR
    j, net = make_ocr_engine_dir(path, chars, H=H, seed=seed, **kw)
    eng = PytorchEngineLineOCR(j, torch.device('cpu'), batch_size=batch_size)
    return eng, net


def make_lstm_lm(letters, seed, dim=8, double=True, dropout=0.0, train_mode=False, eos_first=False):
    """A real brnolm LanguageModel (2-layer LSTM + full softmax) with seeded random weights: history dependent."""
    import torch
    from brnolm.language_models.language_model import LanguageModel
    from brnolm.language_models.lstm_model import LSTMLanguageModel
    from brnolm.language_models.decoders import FullSoftmaxDecoder
    torch.manual_seed(seed)
    vocab = {'<unk>': 0, '</s>': 1} if not eos_first else {'</s>': 0, '<unk>': 1}       # both layouts of the two special symbols occur in trained models
    for i, c in enumerate(letters):
        vocab[c] = i + 2
    enc = torch.nn.Embedding(len(vocab), dim)
    model = LSTMLanguageModel(enc, dim, dim, 2, dropout=dropout)
    dec = FullSoftmaxDecoder(dim, len(vocab), init_range=2.0)
    for p in model.parameters():
        p.data.uniform_(-1.5, 1.5)
    lm = LanguageModel(model, dec, vocab)
    if double:
        lm = lm.double()
    lm._unused_prefix_len = 2
    lm.train(train_mode)          # a freshly built or fine-tuned model arrives in training mode; one loaded for inference in eval mode
    return lm


def lstm_lm_score(lm, seq_ids, h0=None, eos=False):
    """the model's own score of a transcript (decoder symbol indices), walking the torch modules one symbol at a time"""
    import torch
    with torch.no_grad():
        e = lm.vocab['</s>']
        if h0 is None:
            h = lm.model.init_hidden(1)
            _, h = lm.model(torch.tensor([[e]]), h)
        else:
            h = h0
        tot = 0.0
        for s in seq_ids:
            y = lm.decoder(h[0][-1])[0]
            tot += y[s + 2].item()
            _, h = lm.model(torch.tensor([[s + 2]]), h)
        if eos:
            tot += lm.decoder(h[0][-1])[0][e].item()
    return tot, h


class HashLM:
    """Toy LM implementing the interface the decoder uses; its state is a hash of the whole prefix (numpy int64 array),
    the next-symbol distribution is a pseudo-random function of that hash."""
    MOD = 1000000007

    def __init__(self, nchars, seed, temp=2.0):
        self.nchars, self.seed, self.temp = nchars, int(seed), temp
        self._rows = {}
        self.calls = {'advance': 0, 'log_probs': 0}

    def row(self, v):
        v = int(v)
        r = self._rows.get(v)
        if r is None:
            x = np.random.default_rng([self.seed, v]).normal(size=self.nchars + 1) * self.temp
            r = x - np.logaddexp.reduce(x)
            self._rows[v] = r
        return r

    def initial_h(self, n):
        return np.full((n,), 7, dtype=np.int64)

    def state_after(self, prefix, h0=7):
        h = int(h0)
        for c in prefix:
            h = (h * 31 + int(c) + 1) % self.MOD
        return h

    def advance_h0(self, x, h):
        self.calls['advance'] += 1
        return (np.asarray(h, dtype=np.int64) * 31 + np.asarray(x, dtype=np.int64) + 1) % self.MOD

    def log_probs(self, h):
        self.calls['log_probs'] += 1
        return np.array([self.row(v)[:self.nchars] for v in np.asarray(h).reshape(-1)])

    def eos_scores(self, h):
        return np.array([self.row(v)[self.nchars] for v in np.asarray(h).reshape(-1)])

    def score(self, prefix, h0=7, eos=False):
        h = int(h0)
        tot = 0.0
        for c in prefix:
            tot += self.row(h)[int(c)]
            h = (h * 31 + int(c) + 1) % self.MOD
        if eos:
            tot += self.row(h)[self.nchars]
        return tot, h


def make_parsenet(path, horizontal_runs_only=False):
    """Pointwise TorchScript 'ParseNet': out maps from image channels: ch0 -> ascender height (x*40), ch1 -> descender height (x*20),
    ch2 -> baseline probability; end-point and separator maps zero. LayoutEngine(model_path=path, device=cpu) appends '.cpu'."""
    import torch

    class StubParse(torch.nn.Module):
        def forward(self, x):
            n, c, h, w = x.shape
            z = torch.zeros((n, 1, h, w), dtype=x.dtype)
            return torch.cat([x[:, 0:1] * 40.0, x[:, 1:2] * 20.0, x[:, 2:3], z, z], dim=1), z
    class StubParseRuns(torch.nn.Module):
        """as above, but the baseline map responds only where 9 horizontally consecutive pixels of channel 2 are set: a thin vertical
        stroke gives no response in the upright pass and a full one in the rotated passes"""
        def __init__(self):
            super().__init__()
            self.register_buffer('kernel', torch.ones(1, 1, 1, 9))

        def forward(self, x):
            n, c, h, w = x.shape
            z = torch.zeros((n, 1, h, w), dtype=x.dtype)
            base = torch.relu(torch.nn.functional.conv2d(x[:, 2:3], self.kernel, padding=(0, 4)) - 8.0)
            return torch.cat([x[:, 0:1] * 40.0, x[:, 1:2] * 20.0, base, z, z], dim=1), z
    torch.jit.save(torch.jit.script((StubParseRuns() if horizontal_runs_only else StubParse()).eval()), path + '.cpu')
    return path


def stroke_image(hlines, vlines, H=600, W=800, asc=12, desc=4, half=8, vthick=2, hthick=2):
    """image whose channels drive the stub ParseNet: horizontal strokes (y, x0, x1) and vertical strokes (x, y0, y1)"""
    img = np.zeros((H, W, 3), np.uint8)
    for y, x0, x1 in hlines:
        img[y - hthick:y + hthick, x0:x1, 2] = 255
        img[y - half:y + half, x0:x1, 0] = int(255 * asc / 40)
        img[y - half:y + half, x0:x1, 1] = int(255 * desc / 20)
    for x, y0, y1 in vlines:
        img[y0:y1, x - vthick:x + vthick, 2] = 255
        img[y0:y1, x - half:x + half, 0] = int(255 * asc / 40)
        img[y0:y1, x - half:x + half, 1] = int(255 * desc / 20)
    return img


def patch_tiny_vgg():
    """torchvision.models.vgg16 replaced by a VGG-shaped stack of 17 feature layers with 4-8 channels and random weights (no
    download), so that the repository's real build_net / ConvolutionalEncoder path can be exercised offline."""
    import torch
    import torchvision

    def tiny_vgg(pretrained=False, **kw):
        ch = [(3, 4), (4, 4), 'M', (4, 6), (6, 6), 'M', (6, 8), (8, 8), (8, 8), 'M']
        layers = []
        for c in ch:
            if c == 'M':
                layers.append(torch.nn.MaxPool2d(2, 2))
            else:
                layers += [torch.nn.Conv2d(c[0], c[1], 3, padding=1), torch.nn.ReLU(inplace=True)]
        m = torch.nn.Module()
        m.features = torch.nn.Sequential(*layers)
        return m
    torchvision.models.vgg16 = tiny_vgg


def make_transformer_engine(root, seed, H=32, dim=16, heads=2, dff=32, enc=1, dec=2, chars='abcdef', eos_bias=0.5):
    """writes a state dict + JSON and loads them through the real TransformerEngineLineOCR.__init__ (real build_net)"""
    import contextlib
    import io
    import torch
    from pero_ocr.ocr_engine import transformer as T
    from pero_ocr.ocr_engine.transformer_ocr_engine import TransformerEngineLineOCR
    patch_tiny_vgg()
    os.makedirs(root, exist_ok=True)
    net_cfg = {'dim_model': dim, 'dim_ff': dff, 'heads': heads, 'encoder_layers': enc, 'decoder_layers': dec, 'conv_subsampling': [8, 8]}
    torch.manual_seed(seed)
    with contextlib.redirect_stdout(io.StringIO()):
        net = T.build_net(net_cfg, H, 3, len(chars))
    for n_, p in net.named_parameters():
        if p.dim() > 1:
            torch.nn.init.normal_(p, std=0.4)
    with torch.no_grad():
        net.dec_embeder.weight.normal_(std=2.0)
        net.dec_out_proj.weight.normal_(std=1.0)
        net.dec_out_proj.bias.zero_()
        net.dec_out_proj.bias[len(chars)] = eos_bias
    torch.save(net.state_dict(), root + '/t.pt')
    with open(root + '/t.json', 'w') as f:
        json.dump({'line_px_height': H, 'line_vertical_scale': 1, 'checkpoint': 't.pt', 'characters': list(chars), 'net_name': json.dumps(net_cfg)}, f)
    with contextlib.redirect_stdout(io.StringIO()):
        e = TransformerEngineLineOCR(root + '/t.json', torch.device('cpu'))
    return e


def make_parsenet_with_separators(path):
    """1x1-conv TorchScript 'ParseNet': R -> baseline probability, G -> region-separator response, B -> ascender (x40) / descender (x16) heights"""
    import torch

    class StubSep(torch.nn.Module):
        def __init__(self):
            super().__init__()
            self.conv = torch.nn.Conv2d(3, 5, kernel_size=1, bias=False)
            w = torch.zeros(5, 3, 1, 1)
            w[0, 2] = 40.0
            w[1, 2] = 16.0
            w[2, 0] = 1.0
            w[4, 1] = 1.0
            self.conv.weight.data = w

        def forward(self, x):
            return self.conv(x), x
    torch.jit.save(torch.jit.script(StubSep().eval()), path + '.cpu')
    return path
