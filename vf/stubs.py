"""Stub networks written by the harness and loaded through the repository's REAL loading paths."""
import json
import os

import numpy as np


def make_ocr_engine_dir(path, chars, H=16, seed=0, blank_bias=6.0, wscale=0.6):
    """TorchScript Conv2d(3, C, (H,4), stride (1,4)): frame t depends on pixel columns [4t, 4t+4) only; all-zero
    padding decodes to blank (blank bias). Saved as <ckpt>.cpu + JSON, loadable by PytorchEngineLineOCR.__init__."""
    import torch

    class StubNet(torch.nn.Module):
        def __init__(self, H, C, seed):
            super().__init__()
            g = torch.Generator().manual_seed(seed)
            self.conv = torch.nn.Conv2d(3, C, kernel_size=(H, 4), stride=(1, 4))
            with torch.no_grad():
                self.conv.weight.copy_(torch.randn(self.conv.weight.shape, generator=g) * wscale)
                self.conv.bias.zero_()
                self.conv.bias[C - 1] = blank_bias

        def forward(self, x):
            return self.conv(x)[:, :, 0, :]

    os.makedirs(path, exist_ok=True)
    net = StubNet(H, len(chars) + 1, seed).eval()
    torch.jit.save(torch.jit.script(net), os.path.join(path, 'ocr.pt.cpu'))
    cfg = {'line_px_height': H, 'line_vertical_scale': 1.0, 'checkpoint': 'ocr.pt', 'characters': list(chars), 'net_name': 'stub'}
    with open(os.path.join(path, 'ocr.json'), 'w', encoding='utf8') as f:
        json.dump(cfg, f)
    return os.path.join(path, 'ocr.json'), net


def load_ocr_engine(path, chars, H=16, seed=0, batch_size=8, **kw):
    import torch
    from pero_ocr.ocr_engine.pytorch_ocr_engine import PytorchEngineLineOCR
    j, net = make_ocr_engine_dir(path, chars, H=H, seed=seed, **kw)
    eng = PytorchEngineLineOCR(j, torch.device('cpu'), batch_size=batch_size)
    return eng, net
