"""C13 Edit distance, alignments and error summaries are exact and consistent."""
import itertools

import numpy as np

from vf.oracles.editdist import ref_lev, ref_substring, pairs_cost

ID = 'C13'
LEVEL = 'exploration'
TECHNIQUE = 'runtime monitoring: reference-model oracle (textbook DP, brute force over substrings) checked online on generated executions'
RULE = ('pairs of sequences (len 0-12, alphabets of 2-4 symbols or 30 symbols; list[str], list[int], tuples, multi-char tokens; '
        'classes: random, equal, substring, prefix-insertion, empty) with costs 1-4; plus exhaustive enumeration of all pairs over '
        'a 2-letter alphabet up to a length bound. non-trivial = both sequences non-empty and different; distinct = hash of (a, b, costs) Signed / very large integer symbols; caller-chosen gap markers; aggregation over one-shot iterables. A sequence of 8190-32769 symbols against a tiny one; the path variant with an occurring empty_symbol; aggregates of aggregates.')
RULE += ' Round 6: The empty-string token.'
ASSUMPTIONS = ['sequences are homogeneous lists/tuples (numpy coerces heterogeneous lists; plain str is not accepted by the functions)',
               'substring variants are judged with unit costs only (as the statement says)',
               'for equal lengths the first argument is taken as the "longer" sequence, either reading accepted for the distance']
N = {'quick': 6000, 'thorough': 400000}
CLASSES = ['random_small', 'random_small', 'equal', 'substring', 'prefix_insertion', 'empty', 'large_alphabet', 'ints', 'tokens', 'summary_lists', 'long_vs_tiny']
REQUIRED = ['long_sequence_distances', 'paths_with_an_occurring_empty_symbol', 'nested_aggregates', 'gap_marker_alignments', 'aggregate_iterables', 'dist_checked', 'align_checked', 'path_checked', 'substr_dist_checked', 'substr_align_checked', 'summary_checked', 'aggregate_checked']
EXHAUSTIVE_KEY = 'exhaustive_pairs'
EXHAUSTIVE_NOTE = 'all ordered pairs of sequences over {a,b} up to length 4 (quick) / 6 (thorough) and over {a,b,c} up to length 4 (thorough), unit costs and one non-unit cost triple'


def setup(ctx):
    from pero_ocr import sequence_alignment as sa
    from pero_ocr import error_summary as es
    ctx.sa, ctx.es = sa, es


def _seq(rng, n, alpha):
    return [alpha[int(k)] for k in rng.integers(0, len(alpha), size=n)]


def gen(rng, i, ctx):
    cls = CLASSES[i % len(CLASSES)]
    alpha = list('abc d'[:int(rng.integers(2, 5))] if cls != 'large_alphabet' else 'abcdefghijklmnopqrstuvwxyz0123')
    if cls == 'ints':
        alpha = [list(range(int(rng.integers(2, 5)))), [-2, -1, 0, 1], [-1, -2], [0, 2 ** 61 - 1, 1], [-3, -2, -1, 5]][int(rng.integers(0, 5))]   # signed and large ints too
    if cls == 'tokens':
        alpha = [['ab', 'a', 'b', 'ba'][:int(rng.integers(2, 5))], ['a', '', 'b'], ['', 'x'], ['a', '', 'bc', ' ']][int(rng.integers(0, 4))]      # also the empty token ('a  b'.split(' '))
    la, lb = int(rng.integers(0, 13)), int(rng.integers(0, 13))
    a, b = _seq(rng, la, alpha), _seq(rng, lb, alpha)
    if cls == 'equal':
        b = list(a)
    elif cls == 'substring' and la > 0:
        s = int(rng.integers(0, la)); e = int(rng.integers(s, la + 1))
        b = a[s:e]
        if rng.random() < 0.5 and b:
            b[int(rng.integers(0, len(b)))] = alpha[0]
        if rng.random() < 0.5:
            a, b = b, a
    elif cls == 'prefix_insertion':
        # the best substring match needs an insertion before the first matched symbol
        core = _seq(rng, int(rng.integers(1, 5)), alpha[:-1] or alpha)
        b = [alpha[-1]] * int(rng.integers(1, 3)) + core
        a = core + _seq(rng, int(rng.integers(0, 4)), alpha)
        if rng.random() < 0.5:
            a, b = b, a
    elif cls == 'empty':
        if rng.random() < 0.5:
            a = []
        if rng.random() < 0.6:
            b = []
    costs = tuple(int(c) for c in rng.integers(1, 5, size=3))
    if rng.random() < 0.25:
        costs = (1, 1, 1)
    if cls == 'long_vs_tiny' and (i // len(CLASSES)) % 8 == 0:
        c = int(rng.choice([1, 2, 4]))
        n = 32767 // c + int(rng.integers(-2, 3))             # lengths around the points where length x cost crosses 2^15
        costs = (int(rng.integers(1, c + 1)), c, c) if rng.random() < 0.5 else (c, int(rng.integers(1, c + 1)), c)
        a = _seq(rng, n, alpha)
        b = _seq(rng, int(rng.integers(0, 4)), alpha)
        return {'a': a, 'b': b, 'costs': costs, 'tuple': False, 'long': True}
    as_tuple = bool(rng.random() < 0.15)
    case = {'a': a, 'b': b, 'costs': costs, 'tuple': as_tuple}
    if cls == 'summary_lists':
        k = int(rng.integers(1, 6))
        case['pairs'] = [(_seq(rng, int(rng.integers(0, 9)), alpha), _seq(rng, int(rng.integers(0, 9)), alpha)) for _ in range(k)]
    return case


def describe(case):
    return case


def check_pair(a, b, costs, mon, ctx, light=False):
    sa = ctx.sa
    sc, ic, dc = costs
    r = ref_lev(a, b, sc, ic, dc)
    d = sa.levenshtein_distance(a, b, sc, ic, dc)
    mon.observe('distance and alignments', [float(d), sa.levenshtein_alignment(a, b, sc, ic, dc), float(sa.levenshtein_distance_substring(a, b))])
    mon.count('dist_checked')
    if d != r:
        mon.violation('distance', {'a': a, 'b': b, 'costs': costs, 'got': float(d), 'expected': r})
    al = sa.levenshtein_alignment(a, b, sc, ic, dc)
    mon.count('align_checked')
    pa = [x for x, y in al if x is not None]
    pb = [y for x, y in al if y is not None]
    if pa != list(a) or pb != list(b):
        mon.violation('alignment:projection', {'a': a, 'b': b, 'costs': costs, 'alignment': al})
    elif pairs_cost(al, sc, ic, dc) != r:
        mon.violation('alignment:cost', {'a': a, 'b': b, 'costs': costs, 'alignment': al, 'cost': pairs_cost(al, sc, ic, dc), 'expected': r})
    path = sa.levenshtein_alignment_path(a, b, sc, ic, dc)
    mon.count('path_checked')
    i = j = 0
    cost = 0
    ok = True
    for w in path:
        if w < 0:
            if j >= len(b): ok = False; break
            j += 1; cost += ic
        elif w > 0:
            if i >= len(a): ok = False; break
            i += 1; cost += dc
        else:
            if i >= len(a) or j >= len(b): ok = False; break
            cost += 0 if a[i] == b[j] else sc
            i += 1; j += 1
    if not ok or i != len(a) or j != len(b):
        mon.violation('path:projection', {'a': a, 'b': b, 'costs': costs, 'path': [float(x) for x in path]})
    elif cost != r:
        mon.violation('path:cost', {'a': a, 'b': b, 'costs': costs, 'path': [float(x) for x in path], 'cost': cost, 'expected': r})
    # the path variant takes an empty_symbol argument for symmetry with the pair variant; a path has no gap markers, so the argument changes nothing -
    # also when that symbol occurs in the sequences
    if len(a) + len(b):
        sym = (list(a) + list(b))[(len(a) * 7 + len(b)) % (len(a) + len(b))]
        try:
            p2 = sa.levenshtein_alignment_path(a, b, sc, ic, dc, empty_symbol=sym)
            mon.count('paths_with_an_occurring_empty_symbol')
            if [float(x) for x in p2] != [float(x) for x in path]:
                mon.violation('path:projection', {'a': a, 'b': b, 'costs': costs, 'empty_symbol': sym, 'path': [float(x) for x in p2], 'path_without_the_argument': [float(x) for x in path]})
        except Exception as e:
            mon.violation('path:projection', {'a': a, 'b': b, 'empty_symbol': sym, 'exception': repr(e)[:200]})
    # substring variants, unit costs
    longer, shorter = (a, b) if len(a) >= len(b) else (b, a)
    rs = ref_substring(longer, shorter)
    accept = {rs}
    if len(a) == len(b):
        accept.add(ref_substring(shorter, longer))
    ds = sa.levenshtein_distance_substring(a, b)
    mon.count('substr_dist_checked')
    if ds not in accept:
        mech = None
        if ds > rs:
            # classify: is the optimum only reachable with an insertion before the first matched symbol?
            mech = None
        mon.violation('substring:distance', {'a': a, 'b': b, 'got': float(ds), 'expected': rs}, mechanism=mech)
    # a caller-chosen gap marker (not an element of either sequence): the same alignments with the marker in place of None
    marker = ['-', '', 0, ('gap',)][(len(a) + 2 * len(b)) % 4]
    if marker not in list(a) and marker not in list(b):
        mon.count('gap_marker_alignments')
        try:
            with_marker = [(sa.levenshtein_alignment(a, b, sc, ic, dc, empty_symbol=marker), sa.levenshtein_alignment(a, b, sc, ic, dc)),
                           (sa.levenshtein_alignment_substring(a, b, empty_symbol=marker), sa.levenshtein_alignment_substring(a, b))]
            for kind, (wm, plain) in zip(('alignment', 'substring alignment'), with_marker):
                back = [(None if (x is marker or (type(x) is type(marker) and x == marker)) else x, None if (y is marker or (type(y) is type(marker) and y == marker)) else y) for x, y in wm]
                if back != [tuple(p) for p in plain] or any(x is None or y is None for x, y in wm):
                    mon.violation('alignment:gap-marker', {'what': kind, 'a': a, 'b': b, 'empty_symbol': marker, 'with_marker': wm, 'with_None': plain})
        except Exception as e:
            mon.violation('alignment:gap-marker', {'a': a, 'b': b, 'empty_symbol': marker, 'exception': repr(e)[:200]})
    try:
        als = sa.levenshtein_alignment_substring(a, b)
    except Exception as e:
        mon.violation('substring:alignment', {'a': a, 'b': b, 'exception': repr(e)})
        als = None
    mon.count('substr_align_checked')
    if als is not None:
        pa = [x for x, y in als if x is not None]
        pb = [y for x, y in als if y is not None]
        if pa != list(a) or pb != list(b) or any(x is None and y is None for x, y in als):
            mon.violation('substring:alignment-projection', {'a': a, 'b': b, 'alignment': als})
        else:
            longer_first = len(a) >= len(b)
            core = list(als)
            free = (lambda p: p[1] is None) if longer_first else (lambda p: p[0] is None)
            while core and free(core[0]):
                core.pop(0)
            while core and free(core[-1]):
                core.pop()
            c = pairs_cost(core)
            if c != rs:
                mon.violation('substring:alignment-cost', {'a': a, 'b': b, 'alignment': als, 'cost': c, 'expected': rs})
    if not light:
        check_summary([(a, b)], mon, ctx)


def check_summary(pairs, mon, ctx):
    es = ctx.es
    sums = []
    for ref, hyp in pairs:
        s = es.ErrorsSummary.from_lists(list(ref), list(hyp))
        mon.count('summary_checked')
        r = ref_lev(ref, hyp)
        rec = {'ref': ref, 'hyp': hyp, 'errors': int(s.nb_errors), 'S': int(s.nb_subs), 'I': int(s.nb_inss), 'D': int(s.nb_dels)}
        if s.nb_errors != r:
            mon.violation('summary:distance', dict(rec, expected=r))
        if s.nb_subs + s.nb_inss + s.nb_dels != s.nb_errors or min(s.nb_subs, s.nb_inss, s.nb_dels) < 0:
            mon.violation('summary:S+I+D', rec)
        if len(ref) - s.nb_dels + s.nb_inss != len(hyp):
            mon.violation('summary:length-balance', rec)
        if s.ref_len != len(ref) or s.nb_lines_summarized != 1:
            mon.violation('summary:ref_len', rec)
        nconf = sum(sum(c.values()) for c in s.confusions.values())
        nref = sum(sum(c.values()) for k, c in s.confusions.items() if k is not None)
        nhyp = sum(n for c in s.confusions.values() for h, n in c.items() if h is not None)
        if nref != len(ref) or nhyp != len(hyp) or nconf != len(ref) + s.nb_inss:
            mon.violation('summary:confusions', dict(rec, nconf=nconf, nref=nref, nhyp=nhyp))
        sums.append(s)
    agg = es.ErrorsSummary.aggregate(sums)
    mon.count('aggregate_checked')
    for f in ('nb_lines_summarized', 'ref_len', 'nb_errors', 'nb_subs', 'nb_inss', 'nb_dels'):
        if getattr(agg, f) != sum(getattr(s, f) for s in sums):
            mon.violation('aggregate:sum', {'field': f, 'got': int(getattr(agg, f)), 'parts': [int(getattr(s, f)) for s in sums], 'pairs': pairs})
    tot = {}
    for s in sums:
        for k, c in s.confusions.items():
            for h, n in c.items():
                tot[(k, h)] = tot.get((k, h), 0) + n
    got = {(k, h): n for k, c in agg.confusions.items() for h, n in c.items() if n}
    if got != tot:
        mon.violation('aggregate:confusions', {'pairs': pairs})
    # aggregates of aggregates (lines -> pages -> document), and an empty aggregate among them
    if len(sums) >= 2:
        nested = es.ErrorsSummary.aggregate([es.ErrorsSummary.aggregate(sums[:1]), es.ErrorsSummary.aggregate(sums[1:]), es.ErrorsSummary.aggregate([])])
        mon.count('nested_aggregates')
        for f in ('nb_lines_summarized', 'ref_len', 'nb_errors', 'nb_subs', 'nb_inss', 'nb_dels'):
            if getattr(nested, f) != getattr(agg, f):
                mon.violation('aggregate:sum', {'field': f, 'aggregate_of_aggregates': int(getattr(nested, f)), 'flat_aggregate': int(getattr(agg, f)), 'parts': len(sums)})
                break
    # the partial summaries may arrive as any iterable (a generator over the lines of a file, a map object)
    for name, it in (('generator', (x for x in sums)), ('iterator', iter(sums)), ('tuple', tuple(sums))):
        try:
            agg_it = es.ErrorsSummary.aggregate(it)
        except Exception as e:
            mon.violation('aggregate:sum', {'argument': name, 'exception': repr(e)[:200]})
            continue
        mon.count('aggregate_iterables')
        for f in ('nb_lines_summarized', 'ref_len', 'nb_errors', 'nb_subs', 'nb_inss', 'nb_dels'):
            if getattr(agg_it, f) != getattr(agg, f):
                mon.violation('aggregate:sum', {'argument': name, 'field': f, 'got': int(getattr(agg_it, f)), 'from_a_list': int(getattr(agg, f))})
                break
        else:
            if {(k, h): n for k, c in agg_it.confusions.items() for h, n in c.items() if n} != tot:
                mon.violation('aggregate:confusions', {'argument': name})
    # aggregation must not alias / mutate its inputs
    agg2 = es.ErrorsSummary.aggregate(sums)
    if (agg2.nb_errors, agg2.nb_subs, agg2.ref_len) != (agg.nb_errors, agg.nb_subs, agg.ref_len):
        mon.violation('aggregate:idempotent', {'pairs': pairs})


def check(case, mon, ctx):
    a, b = case['a'], case['b']
    if case.get('long'):
        # a long sequence against a tiny one (a whole page against a line): the distance only (the other functions are quadratic in python)
        sa = ctx.sa
        sc, ic, dc = case['costs']
        for x, y in ((a, b), (b, a)):
            r = ref_lev(x, y, sc, ic, dc)
            d = sa.levenshtein_distance(x, y, sc, ic, dc)
            mon.count('long_sequence_distances')
            if d != r:
                mon.violation('distance', {'lengths': [len(x), len(y)], 'costs': case['costs'], 'got': float(d), 'expected': r})
        mon.mark_nontrivial()
        return
    if case['tuple']:
        a, b = tuple(a), tuple(b)
    if len(a) and len(b) and list(a) != list(b):
        mon.mark_nontrivial()
    check_pair(a, b, case['costs'], mon, ctx)
    if 'pairs' in case:
        check_summary(case['pairs'], mon, ctx)


def extra(mon, ctx):
    if ctx.shard != 0:
        return
    bounds = [('ab', 4)] if ctx.tier == 'quick' else [('ab', 6), ('abc', 4)]
    for alpha, L in bounds:
        seqs = [list(t) for l in range(L + 1) for t in itertools.product(alpha, repeat=l)]
        for a in seqs:
            for b in seqs:
                mon.cur_desc = {'a': a, 'b': b, 'exhaustive': alpha}
                check_pair(a, b, (1, 1, 1), mon, ctx, light=True)
                mon.count('exhaustive_pairs')
                mon.count('extra_evaluations')
                if a and b and a != b:
                    mon.mark_nontrivial()
        for a in seqs[:31]:
            for b in seqs[:31]:
                mon.cur_desc = {'a': a, 'b': b, 'exhaustive': alpha, 'costs': (2, 3, 1)}
                check_pair(a, b, (2, 3, 1), mon, ctx, light=True)
                mon.count('extra_evaluations')
