"""C09 Saved logits restore exactly; saved artefacts suffice to rebuild outputs."""
import os
import io
import contextlib
import pickle
import re

import numpy as np
from scipy import sparse

from vf import genlib

ID = 'C09'
LEVEL = 'exploration'
TECHNIQUE = ('runtime monitoring: save/load round-trip oracle on the real functions (exact sparse equality, identity of untouched lines, expected error for a missing '
             'component), COO-triplet oracle for dense reconstruction, and an end-to-end differential (original layout vs layout rebuilt from PAGE XML + logits: '
             're-decode with the real PageDecoder and compare ALTO word lists)')
RULE = ('pages with 0-8 lines; sparse matrices 1-60 x 2-40 (float64 and float32, with fully pruned frames and frames far above the rest) with sparsity 0-99 % and no stored 0.0; charsets incl. multi-codepoint strings; frame windows present or '
        '[None, None]; file-path and bytes variants; files holding a subset / superset of the line ids; legacy files without line_characters / logit_coords; '
        'missing_line_logits_ok. non-trivial = page with >= 2 lines of different shapes; distinct = hash of the page description Absent lines with look-alike ids; legacy files with exactly one side table. Refused save over an existing file; partial logits file with stale XML texts; stored confidences rounded by PAGE XML with a drop threshold; explicitly stored zeros.')
RULE += ' Round 6: Rebuild of an imported and re-ordered layout; an incomplete line with a complete twin of the same id.'
RULE += ' Round 7: Legacy windows edited in place after loading; saves under a bare file name.'
RULE += ' Round 8: Matrices with a cell stored twice; files addressed by path objects.'
ASSUMPTIONS = ['0.0 is the sparse format\'s "pruned" marker: a genuine logit is never exactly 0.0, and an explicitly stored 0.0 means pruned as well', 'line ids are unique within a page',
               'the end-to-end leg uses transcriptions with plain single spaces, geometry inside the page; both layouts go through the same decoder and exporter']
N = {'quick': 500, 'thorough': 30000}
CLASSES = ['roundtrip', 'roundtrip_bytes', 'subset', 'superset', 'legacy', 'missing_component', 'dense', 'rebuild', 'rebuild', 'empty_page']
REQUIRED = ['matrices_with_a_cell_stored_twice', 'files_addressed_by_a_path_object', 'legacy_windows_edited_in_place', 'saves_under_a_bare_file_name', 'rebuilds_of_an_imported_and_reordered_layout', 'missing_component_with_a_complete_twin', 'matrices_with_explicitly_stored_zeros', 'refused_saves_over_an_existing_file', 'partial_file_redecodes', 'legacy:characters_only', 'legacy:coords_only', 'roundtrip_lines', 'untouched_checked', 'missing_reported', 'dense_checked', 'rebuild_pages', 'rebuild_lines_decoded', 'rebuild_alto_compared', 'legacy_checked', 'reloads', 'parse_folder_rebuilds', 'float32_lines']
CHARSETS = [list('abcdefgh '), list('abc '), ['a', 'b', 'é', 'ạ̈', 'שׁ', '\U0001F600', ' '], [chr(0x61 + k) for k in range(26)] + [' ', '.', ',']]


def setup(ctx):
    from pero_ocr.core import layout
    from pero_ocr.document_ocr import page_parser as pp
    from pero_ocr.decoding import decoders
    ctx.L, ctx.pp, ctx.D = layout, pp, decoders


def gen(rng, i, ctx):
    cls = CLASSES[i % len(CLASSES)]
    n = int(rng.integers(0, 9))
    if cls == 'empty_page':
        n = 0
    if cls in ('rebuild', 'missing_component', 'subset') and n == 0:
        n = int(rng.integers(1, 6))
    return {'cls': cls, 'n': n, 'seed': int(rng.integers(0, 1 << 30)), 'charset': int(rng.integers(0, len(CHARSETS))),
            'bytes': bool(cls == 'roundtrip_bytes' or rng.random() < 0.4)}


def describe(case):
    return case


def random_sparse(rng, T, C):
    d = rng.normal(size=(T, C)) * float(rng.choice([5, 5, 12]))
    d[d == 0] = 0.5
    d[rng.random((T, C)) < float(rng.choice([0, 0.3, 0.7, 0.9, 0.99]))] = 0
    if rng.random() < 0.3:
        d[int(rng.integers(0, T))] = 0                     # a fully pruned frame: every entry at the floor
    if rng.random() < 0.3:
        d[int(rng.integers(0, T)), int(rng.integers(0, C))] = float(rng.uniform(20, 40))    # a very confident frame far above the others
    if rng.random() < 0.3:
        d[int(rng.integers(0, T)), int(rng.integers(0, C))] = -10.0 ** float(rng.uniform(-12, -6))    # a genuine stored logit next to (but not) zero
    if rng.random() < 0.5:
        d = d.astype(np.float32)                           # what the OCR engine emits
    m = sparse.csc_matrix(d)
    if rng.random() < 0.25 and m.data.size:
        # entries pruned AFTER the matrix was built (m.data[...] = 0 without eliminate_zeros): zeros that are stored explicitly are still "pruned"
        m.data[rng.random(m.data.size) < 0.3] = 0
    elif rng.random() < 0.12 and m.data.size:
        # (round 8) a matrix assembled from (data, indices, indptr) in which one cell is stored twice: its value is the sum of the two entries (scipy's meaning of duplicates)
        k = int(rng.integers(0, m.data.size))
        col = int(np.searchsorted(m.indptr, k, side='right') - 1)
        data = np.insert(m.data, k + 1, m.data[k] * m.data.dtype.type(0.25))
        data[k] = m.data[k] * m.data.dtype.type(0.75)
        indices = np.insert(m.indices, k + 1, m.indices[k])
        indptr = m.indptr.copy()
        indptr[col + 1:] += 1
        m = sparse.csc_matrix((data, indices, indptr), shape=m.shape)
    return m


def build_page(L, case, alignable=False):
    rng = np.random.default_rng(case['seed'])
    chars = CHARSETS[case['charset']]
    pl = L.PageLayout(id='page', page_size=(1500, 2000))
    nreg = 1 + (case['n'] > 3)
    regs = [L.RegionLayout('r%d' % k, np.array([[0, 750 * k], [2000, 750 * k], [2000, 750 * k + 750], [0, 750 * k + 750]])) for k in range(nreg)]
    for k in range(case['n']):
        if alignable:
            C = len(chars) + 1
            labels = [int(x) for x in rng.integers(0, len(chars), size=int(rng.integers(1, 9)))]
            path = [C - 1] * 8 + genlib.path_for_labels(rng, labels, C - 1, lead=0) + [C - 1] * 8
            lg = genlib.logits_for_path(rng, path, C, mode=str(rng.choice(['peaky', 'noisy'])))
            m = genlib.sparsify(lg, 1e-4)
            coords = [8, len(path) - 8] if rng.random() < 0.8 else [None, None]
            text = ''.join(chars[c] for c in labels)
        else:
            T, C = int(rng.integers(1, 61)), int(rng.integers(2, 41))
            m = random_sparse(rng, T, C)
            coords = [None, None] if rng.random() < 0.3 else [int(rng.integers(0, T)), T]
            text = None
        cs = chars if alignable else [chr(0x61 + j) if j % 5 else 'x́%d' % j for j in range(m.shape[1] - 1)]
        baseline, heights, poly = genlib.straight_line_geometry(rng, 2000, 700)
        off = 750 * (k % nreg)
        line = L.TextLine(id='l%d.%s' % (k, 'x' if k % 2 else 'y'), baseline=baseline + [0, off], polygon=poly + [0, off], heights=heights, transcription=text,
                          logits=m, characters=list(cs) + ['​'], logit_coords=coords)
        regs[k % nreg].lines.append(line)
    pl.regions = regs
    return pl


def same_sparse(a, b):
    return sparse.issparse(b) and a.shape == b.shape and a.dtype == b.dtype and (a != b).nnz == 0 and a.nnz == b.nnz


def save_and_load(src, dst, case, ctx, **kw):
    if case['bytes']:
        dst.load_logits(src.save_logits_bytes(**kw))
    else:
        f = os.path.join(ctx.tmpdir, 'p.logits')
        if case['seed'] % 3 == 0:
            # a bare file name, relative to the working directory
            cwd = os.getcwd()
            os.chdir(ctx.tmpdir)
            try:
                src.save_logits('p.logits', **kw)
                dst.load_logits('p.logits')
            finally:
                os.chdir(cwd)
            ctx.bare_names = getattr(ctx, 'bare_names', 0) + 1
            return
        if case['seed'] % 3 == 1:
            import pathlib
            f = pathlib.Path(f)                    # the file addressed by a path object
            ctx.path_objects = getattr(ctx, 'path_objects', 0) + 1
        src.save_logits(f, **kw)
        dst.load_logits(f)


def skeleton(L, src, drop=(), extra=()):
    """a layout with the same line ids (minus drop, plus extra) and no logits"""
    pl = L.PageLayout(id='page', page_size=src.page_size)
    for r in src.regions:
        reg = L.RegionLayout(r.id, r.polygon)
        for l in r.lines:
            if l.id not in drop:
                reg.lines.append(L.TextLine(id=l.id, baseline=l.baseline, polygon=l.polygon, heights=l.heights))
        pl.regions.append(reg)
    for e in extra:
        pl.regions[0].lines.append(e)
    return pl


def alto_words(xml):
    out = []
    for m in re.finditer(r'<TextLine\b.*?</TextLine>', xml, flags=re.S):
        out.append(re.findall(r'<String\b[^>]*\bCONTENT="([^"]*)"', m.group(0)))
    return out


def check(case, mon, ctx):
    L = ctx.L
    cls = case['cls']
    a = build_page(L, case, alignable=(cls == 'rebuild'))
    lines_a = list(a.lines_iterator())
    if len({l.logits.shape for l in lines_a}) >= 2:
        mon.mark_nontrivial()
    if cls == 'missing_component':
        victim = lines_a[case['seed'] % len(lines_a)]
        comp = ['logits', 'characters', 'logit_coords'][case['seed'] % 3]
        setattr(victim, comp, None)
        mon.count('missing_reported')
        if case['seed'] % 4 == 0:
            # another, complete line with the same id later on the page (ids repeated per region): the incomplete one is still reported
            twin = L.TextLine(id=victim.id, baseline=victim.baseline, polygon=victim.polygon, heights=victim.heights, logits=random_sparse(np.random.default_rng(5), 3, 4),
                              characters=['a', 'b', 'c', '​'], logit_coords=[0, 3])
            a.regions[-1].lines.append(twin)
            mon.count('missing_component_with_a_complete_twin')
        for fn in (lambda: a.save_logits_bytes(), lambda: a.save_logits(os.path.join(ctx.tmpdir, 'm.logits'))):
            try:
                fn()
                mon.violation('missing-component-reported', {'component': comp, 'line': victim.id})
            except Exception:
                pass
        # history on the file: a good file written earlier to the same path survives the refused save
        good = os.path.join(ctx.tmpdir, 'good.logits')
        setattr(victim, comp, {'logits': random_sparse(np.random.default_rng(3), 4, len(victim.characters or 'abc') if comp != 'characters' else 3),
                               'characters': ['a', 'b', '​'], 'logit_coords': [0, 1]}[comp])
        if comp == 'logits' and victim.characters is not None:
            victim.logits = random_sparse(np.random.default_rng(3), 4, len(victim.characters))
        try:
            a.save_logits(good)
            before = open(good, 'rb').read()
            setattr(victim, comp, None)
            try:
                a.save_logits(good)
            except Exception:
                pass
            mon.count('refused_saves_over_an_existing_file')
            after = open(good, 'rb').read() if os.path.exists(good) else b''
            if after != before:
                mon.violation('missing-component-reported', {'note': 'the refused save destroyed the file that was at that path', 'component': comp, 'bytes_before': len(before), 'bytes_after': len(after)})
        finally:
            setattr(victim, comp, None)
        # tolerant mode must still save every complete line
        b = skeleton(L, a)
        try:
            b.load_logits(a.save_logits_bytes(missing_line_logits_ok=True))
        except Exception as e:
            mon.violation('missing-ok-mode-saves', {'exception': repr(e)[:200]})
            return
        for la, lb in zip(a.lines_iterator(), b.lines_iterator()):
            if la is not victim and not (same_sparse(la.logits, lb.logits) and lb.characters == la.characters and lb.logit_coords == la.logit_coords):
                mon.violation('restores-identical', {'line': la.id, 'mode': 'missing_line_logits_ok'})
        return
    drop, extra = (), ()
    if cls == 'subset' and lines_a:
        drop = tuple(l.id for l in lines_a[::2])
    keep_obj = L.TextLine(id='not-in-file', logits='KEEP-LOGITS', characters='KEEP-CHARS', logit_coords='KEEP-COORDS')
    # more lines that are absent from the file, with ids that resemble ids in the file (prefixed as validate_id exports them, suffixed, truncated, other case)
    look_alikes = []
    if lines_a:
        x = lines_a[case['seed'] % len(lines_a)].id
        for v in ('id_' + x, x + '_1', x[:-1], x.upper(), ' ' + x, x.split('.')[0]):
            if v and v not in {l.id for l in lines_a}:
                look_alikes.append(L.TextLine(id=v, logits='KEEP-LOGITS', characters='KEEP-CHARS', logit_coords='KEEP-COORDS'))
    extra = (keep_obj,) + tuple(look_alikes)
    b = skeleton(L, a, drop=drop, extra=extra)
    if cls == 'superset':
        # file with more ids than the layout has
        a.regions[0].lines.append(L.TextLine(id='only-in-file', logits=random_sparse(np.random.default_rng(1), 3, 4), characters=['a', 'b', 'c', '_'], logit_coords=[0, 3]))
    if cls == 'legacy':
        # older generations of the file: matrices only, matrices + character tables, matrices + frame windows
        d = a._gen_logits()
        which = ['neither', 'characters_only', 'coords_only'][case['seed'] % 3]
        if which != 'characters_only':
            d.pop('line_characters')
        if which != 'coords_only':
            d.pop('logit_coords')
        b.load_logits(pickle.dumps(d, protocol=4))
        mon.count('legacy_checked')
        mon.count('legacy:' + which)
        by = {l.id: l for l in b.lines_iterator()}
        for la in lines_a:
            lb = by[la.id]
            e_chars = la.characters if which == 'characters_only' else None
            e_coords = la.logit_coords if which == 'coords_only' else [None, None]
            if not same_sparse(la.logits, lb.logits) or lb.characters != e_chars or lb.logit_coords != e_coords:
                mon.violation('legacy-file-loads', {'file_has': which, 'line': la.id, 'characters': lb.characters, 'coords': lb.logit_coords, 'expected_characters': e_chars, 'expected_coords': e_coords})
        # history: the window of one loaded line is then set in place (a later stage fills in what the old file did not have); the other lines keep theirs
        loaded = [by[la.id] for la in lines_a]
        if len(loaded) >= 2 and which != 'coords_only' and isinstance(loaded[0].logit_coords, list):
            before = [list(l.logit_coords) for l in loaded[1:]]
            loaded[0].logit_coords[0], loaded[0].logit_coords[1] = 3, 17
            mon.count('legacy_windows_edited_in_place')
            after = [list(l.logit_coords) for l in loaded[1:]]
            if after != before:
                mon.violation('legacy-file-loads', {'file_has': which, 'note': 'the frame window of the first loaded line was set in place and the windows of other lines changed with it', 'other_lines_before': before[:3], 'other_lines_after': after[:3]})
        return
    try:
        save_and_load(a, b, case, ctx)
    except Exception as e:
        mon.violation('save-load-raises', {'exception': repr(e)[:300], 'bare_file_name': (not case['bytes']) and case['seed'] % 3 == 0})
        return
    if not case['bytes'] and case['seed'] % 3 == 0:
        mon.count('saves_under_a_bare_file_name')
    if not case['bytes'] and case['seed'] % 3 == 1:
        mon.count('files_addressed_by_a_path_object')
    by_id = {l.id: l for l in b.lines_iterator()}
    mon.observe('loaded windows and tables', [(l.id, l.logit_coords, l.characters, None if l.logits is None or isinstance(l.logits, str) else [int(x) for x in l.logits.shape]) for l in b.lines_iterator()])
    for la in lines_a:
        if la.id in drop:
            continue
        lb = by_id[la.id]
        mon.count('roundtrip_lines')
        if not same_sparse(la.logits, lb.logits):
            mon.violation('restores-identical', {'line': la.id, 'what': 'logit matrix', 'shape_saved': la.logits.shape, 'shape_loaded': getattr(lb.logits, 'shape', None)})
        if lb.characters != la.characters:
            mon.violation('restores-identical', {'line': la.id, 'what': 'character table', 'got': lb.characters, 'expected': la.characters})
        if lb.logit_coords != la.logit_coords:
            mon.violation('restores-identical', {'line': la.id, 'what': 'frame window', 'got': lb.logit_coords, 'expected': la.logit_coords})
    for ko in extra:
        mon.count('untouched_checked')
        if not (isinstance(ko.logits, str) and ko.logits == 'KEEP-LOGITS') or ko.characters != 'KEEP-CHARS' or ko.logit_coords != 'KEEP-COORDS':
            mon.violation('absent-lines-untouched', {'line': ko.id, 'ids_in_file': [l.id for l in lines_a if l.id not in drop][:8], 'logits': repr(ko.logits)[:60]})
    check_dense(b, mon)
    if cls in ('roundtrip', 'roundtrip_bytes', 'dense', 'subset'):
        # history: the SAME layout object (already densified above) now loads a different file with the same line ids
        case2 = dict(case, seed=case['seed'] + 1)
        a2 = build_page(L, case2)
        la2 = list(a2.lines_iterator())
        for l_old, l_new in zip(lines_a, la2):
            l_new.id = l_old.id
        if len(la2) == len(lines_a) and la2:
            try:
                save_and_load(a2, b, case, ctx)
            except Exception as e:
                mon.violation('save-load-raises', {'exception': repr(e)[:300], 'step': 'second load into the same layout'})
                return
            mon.count('reloads')
            by_id = {l.id: l for l in b.lines_iterator()}
            for la in la2:
                if la.id in drop:
                    continue
                lb = by_id[la.id]
                if not same_sparse(la.logits, lb.logits) or lb.characters != la.characters or lb.logit_coords != la.logit_coords:
                    mon.violation('restores-identical', {'line': la.id, 'step': 'second load into the same layout'})
            check_dense(b, mon, step='after a second load into the same layout')
    if cls == 'rebuild':
        check_rebuild(a, case, mon, ctx)


def check_dense(b, mon, step='after load'):
    for lb in b.lines_iterator():
        if not sparse.issparse(lb.logits):
            continue
        src = lb.logits.tocoo(copy=True)
        if not lb.logits.has_canonical_format:
            mon.count('matrices_with_a_cell_stored_twice')
        src.sum_duplicates()                       # a cell stored twice holds the sum of its entries
        for floor in (-80, -35.5):
            d = lb.get_dense_logits(floor) if floor != -80 else lb.get_dense_logits()
            mon.count('dense_checked')
            exp = np.full(lb.logits.shape, float(floor))
            keep = src.data != 0                   # 0.0 is the format's marker for "pruned", whether it is stored explicitly or not
            exp[src.row[keep], src.col[keep]] = src.data[keep]
            if not keep.all():
                mon.count('matrices_with_explicitly_stored_zeros')
            if d.shape != exp.shape or not np.array_equal(d, exp):
                mon.violation('dense-reconstruction', {'line': lb.id, 'floor': floor, 'step': step, 'max_abs_diff': float(np.abs(d - exp).max()) if d.shape == exp.shape else None,
                              'shapes': [list(d.shape), list(exp.shape)]})
                break
        lp = lb.get_full_logprobs()
        tol = 1e-9 if lp.dtype == np.float64 else 2e-4
        if lp.dtype != np.float64:
            mon.count('float32_lines')
        if lp.shape != lb.logits.shape or not np.all(np.isfinite(lp)) or np.abs(np.logaddexp.reduce(lp.astype(np.float64), axis=1)).max() > tol:
            mon.violation('dense-rows-normalised', {'line': lb.id, 'step': step})
            continue
        dn = lb.get_dense_logits()
        if np.abs((lp.astype(np.float64) - dn) - (lp.astype(np.float64) - dn)[:, :1]).max() > tol * 10:
            mon.violation('dense-rows-normalised', {'line': lb.id, 'step': step, 'note': 'log-probabilities are not the dense logits minus a per-row constant'})
        # the caller may modify what it gets: a second call must not be affected
        dn[:] = 123.0
        if np.array_equal(lb.get_dense_logits(), dn) and dn.size:
            mon.violation('dense-reconstruction', {'line': lb.id, 'step': step, 'note': 'returned array aliases internal state (modifying it changed the next result)'})


def check_rebuild(a, case, mon, ctx):
    L, D = ctx.L, ctx.D
    xmlf, logf = os.path.join(ctx.tmpdir, 'r.xml'), os.path.join(ctx.tmpdir, 'r.logits')
    # the lines carry a confidence estimate from an earlier stage; PAGE XML stores it rounded to three decimals (0.2996 -> 0.300)
    for k, l in enumerate(a.lines_iterator()):
        l.transcription_confidence = 0.2 + 0.1 * (k % 8) - 0.0004
    if case['seed'] % 3 == 0:
        # history: the layout itself was imported from PAGE XML + logits earlier, and its lines were re-ordered in memory since (a reading-order correction)
        a.to_pagexml(xmlf)
        a.save_logits(logf)
        a = L.PageLayout(file=xmlf)
        a.load_logits(logf)
        for r in a.regions:
            r.lines.reverse()
        for k, l in enumerate(a.lines_iterator()):
            l.transcription_confidence = 0.2 + 0.1 * (k % 8) - 0.0004
        mon.count('rebuilds_of_an_imported_and_reordered_layout')
    a.to_pagexml(xmlf)
    a.save_logits(logf)
    b = L.PageLayout(file=xmlf)
    b.load_logits(logf)
    mon.count('rebuild_pages')
    chars = CHARSETS[case['charset']]
    for name, dec in (('greedy', D.GreedyDecoder(chars + [D.BLANK_SYMBOL])), ('beam', D.CTCPrefixLogRawNumpyDecoder(chars + [D.BLANK_SYMBOL], k=4))):
        ta, tb = [], []
        for src, out in ((a, ta), (b, tb)):
            import copy
            pl = copy.deepcopy(src)
            ctx.pp.PageDecoder(dec).process_page(pl)
            out.extend((l.id, l.transcription) for l in pl.lines_iterator())
            if src is a:
                pa = pl
            else:
                pb = pl
        mon.count('rebuild_lines_decoded', len(ta))
        if name == 'greedy':
            greedy_texts = dict(tb)
        if ta != tb:
            mon.violation('rebuilt-layout-redecodes-identically', {'decoder': name, 'original': ta, 'rebuilt': tb})
    # a partial logits file (one line in the middle is missing) and stale texts in the XML: every line that has logits is decoded again
    lines_a = list(a.lines_iterator())
    if len(lines_a) >= 3:
        import copy
        stale = copy.deepcopy(a)
        for l in stale.lines_iterator():
            l.transcription = 'STALE'
        stale.to_pagexml(xmlf)
        miss = lines_a[len(lines_a) // 2].id
        d = a._gen_logits()
        for key in (d, d['line_characters'], d['logit_coords']):
            key.pop(miss)
        c = L.PageLayout(file=xmlf)
        c.load_logits(pickle.dumps(d, protocol=4))
        dec = D.GreedyDecoder(chars + [D.BLANK_SYMBOL])
        with contextlib.redirect_stderr(io.StringIO()):
            import logging
            logging.disable(logging.CRITICAL)
            try:
                ctx.pp.PageDecoder(dec).process_page(c)
            finally:
                logging.disable(logging.NOTSET)
        full = greedy_texts
        mon.count('partial_file_redecodes')
        for l in c.lines_iterator():
            want = 'STALE' if l.id == miss else full[l.id]
            if l.transcription != want:
                mon.violation('rebuilt-layout-redecodes-identically', {'note': 'logits file without line %s: a line that has logits was not decoded again' % miss, 'line': l.id, 'got': l.transcription, 'expected': want})
                break
    thr = 0.3 if case['seed'] % 2 else 0.0            # with a drop threshold that lies between a stored estimate and its rounded form, and without
    try:
        xa = a.to_altoxml_string(min_line_confidence=thr)
    except Exception as e:
        xa = 'EXC ' + type(e).__name__
    try:
        xb = b.to_altoxml_string(min_line_confidence=thr)
    except Exception as e:
        xb = 'EXC ' + type(e).__name__
    if xa.startswith('EXC') and xb.startswith('EXC'):
        mon.count('rebuild_alto_failed_both')
        return
    mon.count('rebuild_alto_compared')
    wa = alto_words(xa) if not xa.startswith('EXC') else xa
    wb = alto_words(xb) if not xb.startswith('EXC') else xb
    if wa != wb:
        mon.violation('rebuilt-layout-exports-same-alto-text', {'original': wa, 'rebuilt': wb})


def extra(mon, ctx):
    """the batch script itself: ALTO produced from the saved PAGE XML + logits (no OCR) must carry the same text as the ALTO of the original run"""
    if ctx.shard != 0:
        return
    import shutil
    from vf import pipeline
    PF = pipeline.load_parse_folder(ctx.repo)
    n = 1 if ctx.tier == 'quick' else 6
    for k in range(n):
        root = os.path.join(ctx.tmpdir, 'pf%d' % k)
        ids = ['a', 'b.v2', 'c']
        pipeline.make_batch(root, ids, seed=ctx.seed * 10 + k, n_lines=3)
        r1 = pipeline.run_main(PF, pipeline.argv_for(root, root + '/out', ['xml', 'logits', 'alto'], skip=False))
        with open(root + '/config2.ini', 'w') as f:
            f.write('[PAGE_PARSER]\nRUN_LAYOUT_PARSER = no\nRUN_LINE_CROPPER = no\nRUN_OCR = no\nRUN_DECODER = no\n')
        argv = ['parse_folder.py', '-c', root + '/config2.ini', '-x', root + '/out/xml', '--input-logit-path', root + '/out/logits', '--device', 'cpu',
                '--output-alto-path', root + '/out2/alto', '--output-xml-path', root + '/out2/xml']
        r2 = pipeline.run_main(PF, argv)
        mon.count('extra_evaluations')
        mon.count('parse_folder_rebuilds')
        mon.cur_desc = {'leg': 'parse_folder: ALTO from saved PAGE XML + logits', 'folder_seed': ctx.seed * 10 + k}
        if r1 != 'ok' or r2 != 'ok':
            mon.violation('harness:exception', {'note': 'parse_folder runs did not finish', 'statuses': [r1, r2]})
            continue
        for pid in ids:
            try:
                wa = alto_words(open('%s/out/alto/%s.xml' % (root, pid), encoding='utf-8').read())
                wb = alto_words(open('%s/out2/alto/%s.xml' % (root, pid), encoding='utf-8').read())
            except OSError as e:
                mon.violation('rebuilt-layout-exports-same-alto-text', {'page': pid, 'exception': repr(e)[:200]})
                continue
            mon.count('parse_folder_rebuild_text_lines', len(wa))
            if wa != wb:       # (a page whose lines were all recognised as blank has no TextLine in either export)
                mon.violation('rebuilt-layout-exports-same-alto-text', {'page': pid, 'via': 'parse_folder', 'original': wa, 'rebuilt': wb})
            wca = re.findall(r'\bWC="([^"]*)"', open('%s/out/alto/%s.xml' % (root, pid), encoding='utf-8').read())
            wcb = re.findall(r'\bWC="([^"]*)"', open('%s/out2/alto/%s.xml' % (root, pid), encoding='utf-8').read())
            if wca != wcb:
                mon.violation('rebuilt-layout-exports-same-alto-text', {'page': pid, 'via': 'parse_folder', 'what': 'word confidences', 'original': wca[:8], 'rebuilt': wcb[:8]})
        shutil.rmtree(root, ignore_errors=True)
