"""C03 LM fusion: LM score is the LM's own score; result maximises vis + scale*LM."""
import copy

import numpy as np

from vf.oracles import ctc
from vf.props.c02 import make_matrix, nonpruning

ID = 'C03'
LEVEL = 'exploration'
TECHNIQUE = ('runtime monitoring: independent LM scorer (walks the model symbol by symbol) and reference fused beam search compared online with the real '
             'decoder + real LMWrapper/brnolm LSTM and with a hash-of-prefix toy LM; arg-max / posterior / returned-state oracles on the returned bag')
RULE = ('CTC matrices as in C02 (T 1-8, C 3-5) x history-dependent LMs (toy LM whose state is a hash of the whole prefix; real brnolm 2-layer LSTM behind the real '
        'LMWrapper) x LM scale in {0,0.1,0.5,1,2,3} x insertion bonus {0,0.3,1} x k in {1,2,4,8} x end-of-line modelling on/off x supplied initial state or not. '
        'non-trivial = >= 2 hypotheses with different LM scores; distinct = hash of (matrix, LM seed, parameters) The returned bag is re-weighted (lm_weight) after a query and queried again; the same hypotheses at score levels -800 / -3000 / +800. An alphabet with a two-character symbol (homographs); an LM arriving in training mode with dropout; beams of 1100-2100 prefixes.')
RULE += ' Round 6: Decoders built by decoder_factory from a configuration at LM scales 0 / 0.5 / 2; vocabularies that list the line-end symbol first.'
RULE += ' Round 7: Start state 0; the LM file replaced between factory builds; model parameters loaded in place into a long-lived decoder\'s LM.'
ASSUMPTIONS = ['LM scores are compared within 1e-8 (float64 LMs)', 'ties of the final arg-max (two best totals within 1e-9) are skipped as ambiguous',
               'the "LM state returned" is compared with the state after the arg-max transcript from the same start state']
N = {'quick': 1600, 'thorough': 60000}
CLASSES = ['hash', 'hash', 'hash_init', 'hash_scale0', 'torch', 'hash_eos', 'hash', 'torch_init', 'hash_sequence', 'torch_sequence', 'homographs', 'wide_beam']
REQUIRED = ['supplied_start_states_equal_to_zero', 'lm_updated_in_place', 'torch_lms_with_the_line_end_symbol_first', 'factory_built_decoders', 'homograph_alphabets', 'beams_over_1024_prefixes', 'torch_lms_arriving_in_training_mode', 'reweighted_bag_checked', 'shifted_bag_checked', 'sequence_calls_checked', 'lm_scores_checked', 'best_checked', 'scale0_checked', 'confidence_checked', 'state_checked', 'beam_compared', 'torch_cases', 'nonunit_scale_best_checked']
SHARDS = {'quick': 8, 'thorough': 16}


def setup(ctx):
    import torch
    from pero_ocr.decoding import decoders
    from pero_ocr.decoding.lm_wrapper import LMWrapper, HiddenState
    from vf import stubs
    ctx.torch, ctx.D, ctx.LMWrapper, ctx.HiddenState, ctx.stubs = torch, decoders, LMWrapper, HiddenState, stubs


def gen(rng, i, ctx):
    cls = CLASSES[i % len(CLASSES)]
    C = int(rng.integers(3, 6))
    T = int(rng.integers(1, 9))
    kind = str(rng.choice(['rand', 'peaky', 'zeros', 'repeats', 'twolevel', 'allpruned']))
    lp = make_matrix(rng, kind, T, C)
    scale = float(rng.choice([0, 0.1, 0.5, 1, 2, 3]))
    if cls == 'hash_scale0':
        scale = 0.0
    kk = int(rng.choice([1, 2, 4, 8]))
    if cls == 'homographs':
        lp = make_matrix(rng, str(rng.choice(['rand', 'repeats', 'twolevel'])), int(rng.integers(2, 7)), int(rng.integers(3, 5)))
        kk = int(rng.choice([4, 8, 50]))
    if cls == 'wide_beam' and (i // len(CLASSES)) % 6:
        cls = 'hash'                      # (one in six: a wide beam costs a few hundred milliseconds)
    if cls == 'wide_beam':
        # beams of more than a thousand prefixes: a diffuse matrix over 6 symbols, 6-8 frames
        lp = make_matrix(rng, 'rand', int(rng.integers(6, 9)), 7)
        lp = np.log(np.exp(lp * 0.15) / np.exp(lp * 0.15).sum(1, keepdims=True))
        kk = int(rng.choice([1100, 1500, 2100]))
    return {'cls': cls, 'lp': lp, 'kind': kind, 'k': kk, 'scale': scale,
            'bonus': float(rng.choice([0, 0.3, 1.0])), 'eos': bool(cls == 'hash_eos' or rng.random() < 0.3),
            'init': cls.endswith('_init'), 'lm_seed': int(rng.integers(0, 1 << 30)),
            'default_selector': bool(rng.random() < 0.5) and cls != 'wide_beam', 'prev': [int(x) for x in rng.integers(0, C - 1, size=int(rng.integers(0, 5)))]}


def describe(case):
    d = dict(case)
    d['log_probs'] = d.pop('lp')
    return d


def check(case, mon, ctx):
    D, torch = ctx.D, ctx.torch
    lp, k, scale, bonus, eos = case['lp'], case['k'], case['scale'], case['bonus'], case['eos']
    C = lp.shape[1]
    letters = [chr(0x61 + c) for c in range(C - 1)]
    if case['cls'] == 'homographs':
        # an alphabet with a ligature-like symbol: two different label sequences spell the same text ('aa' vs 'a','a')
        letters[-1] = letters[0] * 2
        mon.count('homograph_alphabets')
    is_torch = case['cls'].startswith('torch')
    if is_torch:
        mon.count('torch_cases')
        trained = case['lm_seed'] % 2 == 0
        raw_in = ctx.stubs.make_lstm_lm(letters, case['lm_seed'], dim=int(8 + case['lm_seed'] % 9), dropout=0.3 if trained else 0.0, train_mode=trained,
                                        eos_first=(case['lm_seed'] // 2) % 2 == 1)
        if (case['lm_seed'] // 2) % 2 == 1:
            mon.count('torch_lms_with_the_line_end_symbol_first')
        if trained:
            mon.count('torch_lms_arriving_in_training_mode')
        raw = copy.deepcopy(raw_in).eval()            # the oracle's own copy of the model, in inference mode
        lm = ctx.LMWrapper(raw_in, letters, torch.device('cpu'))
        init_h, h0_raw = None, None
        if case['init']:
            # state carried over from a previous line, exactly as the page decoder builds it
            init_h = lm.initial_h_from_line(''.join(letters[c] for c in case['prev']))
            h0_raw = init_h.prepare_for_torch()

        def score(prefix, with_eos):
            s, h = ctx.stubs.lstm_lm_score(raw, list(prefix), h0=h0_raw, eos=with_eos)
            return s, h
    else:
        lm = ctx.stubs.HashLM(C - 1, case['lm_seed'])
        init_h, h0v = None, 7
        if case['init']:
            h0v = lm.state_after(case['prev'], 7) * 13 % lm.MOD
            if case['lm_seed'] % 4 == 0:
                h0v = 0                         # a state like any other for the model; as a one-element array it is 'false'
                mon.count('supplied_start_states_equal_to_zero')
            init_h = np.array([h0v], dtype=np.int64)

        def score(prefix, with_eos):
            return lm.score(prefix, h0=h0v, eos=with_eos)
    if case['cls'].endswith('_sequence'):
        return check_sequence(case, mon, ctx, lm, letters, is_torch)
    sel = None if case['default_selector'] else nonpruning
    kw = {} if sel is None else {'relevant_logits_selector': sel}
    dec = D.CTCPrefixLogRawNumpyDecoder(letters + [D.BLANK_SYMBOL], k=k, lm=lm, lm_scale=scale, insertion_bonus=bonus, **kw)
    try:
        boh, h = dec(lp.copy(), model_eos=eos, return_h=True, init_h=init_h)
    except Exception as e:
        mon.violation('decode-raises', {'exception': repr(e)[:300]})
        return
    hyps = list(boh)
    if len(hyps) > 1024:
        mon.count('beams_over_1024_prefixes')
    mon.observe('hypotheses', [(x.transcript, round(float(x.vis_sc), 9), round(float(x.lm_sc), 7)) for x in hyps])
    totals = []
    lm_scores = set()
    spelt = {}

    def spellings(text):
        """all label sequences over `letters` that spell text (exactly one for single-character alphabets)"""
        if text == '':
            return [[]]
        out = []
        for k, sym in enumerate(letters):
            if text.startswith(sym):
                out += [[k] + rest for rest in spellings(text[len(sym):])]
        return out
    for hi, hyp in enumerate(hyps):
        cands = [(ids, score(ids, eos)[0] + bonus * len(ids)) for ids in spellings(hyp.transcript)]
        mon.count('lm_scores_checked')
        match = [ids for ids, e in cands if abs(e - hyp.lm_sc) <= 1e-8]
        if not match:
            mon.violation('lm-score-is-the-models-own', {'transcript': hyp.transcript, 'lm_sc': float(hyp.lm_sc), 'expected': [e for _, e in cands][:4]})
        spelt[hi] = match[0] if match else (cands[0][0] if cands else [])
        totals.append(hyp.vis_sc + scale * hyp.lm_sc)
        lm_scores.add(round(float(hyp.lm_sc), 6))
    if len(lm_scores) >= 2:
        mon.mark_nontrivial()
    order = np.argsort(totals)[::-1]
    tie = len(totals) > 1 and totals[order[0]] - totals[order[1]] < 1e-9
    best = hyps[int(order[0])].transcript
    if tie:
        mon.skip_ambiguous('final-argmax-tie')
    else:
        mon.count('best_checked')
        if scale != 1.0 and len(hyps) > 1:
            mon.count('nonunit_scale_best_checked')
        got_best = boh.best_hyp()
        if got_best != best:
            mon.violation('result-maximises-vis-plus-scaled-lm', {'best_hyp': got_best, 'argmax': best, 'scale': scale,
                          'hyps': [(x.transcript, float(x.vis_sc), float(x.lm_sc)) for x in hyps]})
        mon.count('confidence_checked')
        post = np.array(totals) - np.logaddexp.reduce(np.array(totals))
        unique_text = sum(1 for x in hyps if x.transcript == best) == 1       # (with homographs a text can occur twice in the bag: confidence by text is then not defined)
        if abs(boh.confidence() - float(np.exp(post[order[0]]))) > 1e-9 or (unique_text and abs(boh.confidence() - boh.transcript_confidence(best)) > 1e-12):
            mon.violation('confidence-is-posterior-of-result', {'confidence': boh.confidence(), 'expected': float(np.exp(post[order[0]]))})
        if abs(sum(np.exp(boh.posteriors())) - 1) > 1e-9:
            mon.violation('posteriors-sum-to-1', {'sum': float(sum(np.exp(boh.posteriors())))})
        # state returned for carrying over = LM state after the result (the label sequence of the best-scoring hypothesis)
        ids = spelt[int(order[0])]
        _, hexp = score(ids, False)
        mon.count('state_checked')
        if is_torch:
            got_h = h.prepare_for_torch()
            ok = all(a.shape == b.shape and torch.allclose(a, b, atol=1e-9) for a, b in zip(got_h, hexp))
        else:
            ok = (np.asarray(h).reshape(-1).tolist() == [hexp])
        if not ok:
            mon.violation('returned-state-is-state-after-result', {'result': best})
    # history on the returned bag: it was queried above; now it is re-weighted (lm_weight is its public LM scale) and queried again,
    # and bags with the same hypotheses at very low / very high score levels (long lines) report the same posteriors
    if not tie and hyps:
        from pero_ocr.decoding.bag_of_hypotheses import BagOfHypotheses
        for w2 in (0.0, 0.7, scale):
            boh.lm_weight = w2
            t2 = np.array([x.vis_sc + w2 * x.lm_sc for x in hyps])
            o2 = np.argsort(t2)[::-1]
            if len(t2) > 1 and t2[o2[0]] - t2[o2[1]] < 1e-9:
                continue
            mon.count('reweighted_bag_checked')
            e_conf = float(np.exp(t2[o2[0]] - np.logaddexp.reduce(t2)))
            if boh.best_hyp() != hyps[int(o2[0])].transcript:
                mon.violation('result-maximises-vis-plus-scaled-lm', {'after': 'lm_weight set to %r on a bag that was queried before' % w2, 'best_hyp': boh.best_hyp(), 'argmax': hyps[int(o2[0])].transcript})
            elif abs(boh.confidence() - e_conf) > 1e-9 or (sum(1 for x in hyps if x.transcript == hyps[int(o2[0])].transcript) == 1 and abs(boh.transcript_confidence(boh.best_hyp()) - e_conf) > 1e-9):
                mon.violation('confidence-is-posterior-of-result', {'after': 'lm_weight set to %r on a bag that was queried before' % w2, 'confidence': boh.confidence(),
                              'transcript_confidence': boh.transcript_confidence(boh.best_hyp()), 'expected': e_conf})
        for shift in (-800.0, -3000.0, 800.0):
            b2 = BagOfHypotheses(lm_weight=scale)
            for x in hyps:
                b2.add(x.transcript, x.vis_sc + shift, x.lm_sc)
            mon.count('shifted_bag_checked')
            e_conf = float(np.exp(post[order[0]]))
            c2 = b2.confidence()
            if not np.isfinite(c2) or abs(c2 - e_conf) > 1e-9 or b2.best_hyp() != best:
                mon.violation('confidence-is-posterior-of-result', {'note': 'the same hypotheses with every visual score shifted by %g (a long line)' % shift, 'confidence': c2, 'expected': e_conf,
                              'best_hyp': b2.best_hyp(), 'argmax': best})
    # scale 0 reproduces LM-free decoding
    if scale == 0.0:
        free = D.CTCPrefixLogRawNumpyDecoder(letters + [D.BLANK_SYMBOL], k=k, **kw)(lp.copy())
        mon.count('scale0_checked')
        a = sorted((x.transcript, round(float(x.vis_sc), 9)) for x in free)
        b = sorted((x.transcript, round(float(x.vis_sc), 9)) for x in hyps)
        ft = sorted((float(x.vis_sc) for x in free), reverse=True)
        if len(ft) > 1 and ft[0] - ft[1] < 1e-9:
            mon.skip_ambiguous('scale0-tie')
        elif a != b and not _beam_tie(lp, k, case['default_selector']):
            mon.violation('scale-0-reproduces-lm-free-decoding', {'lm_free': a, 'with_lm': b})
        elif free.best_hyp() != boh.best_hyp():
            mon.violation('scale-0-reproduces-lm-free-decoding', {'lm_free_best': free.best_hyp(), 'with_lm_best': boh.best_hyp()})
    # reference fused beam search
    if not is_torch:
        selector = (lambda row, c: row[c] > -10) if case['default_selector'] else (lambda row, c: row[c] > -np.inf)
        ref, amb = ctc.ref_beam(lp, k, selector, lm=lambda p: score(p, False)[0], lm_scale=scale, bonus=bonus)
        if amb:
            mon.skip_ambiguous('beam-tie')
        else:
            mon.count('beam_compared')
            got = {tuple(spelt[hi]): float(x.vis_sc) for hi, x in enumerate(hyps)}
            if set(got) != set(ref) or any(np.isfinite(ref[p]) and abs(got[p] - ref[p]) > 1e-9 for p in ref):
                mon.violation('equals-fused-beam-search', {'got': sorted(got), 'expected': sorted(ref)})


def _beam_tie(lp, k, dsel):
    selector = (lambda row, c: row[c] > -10) if dsel else (lambda row, c: row[c] > -np.inf)
    return ctc.ref_beam(lp, k, selector)[1]


def check_sequence(case, mon, ctx, lm, letters, is_torch):
    """one long-lived decoder (and LM wrapper) decodes several lines in a row; every call must give what a freshly built decoder + LM gives for that line alone"""
    D, torch = ctx.D, ctx.torch
    rng = np.random.default_rng(case['lm_seed'])
    C = len(letters) + 1
    mats = [case['lp']] + [make_matrix(rng, str(rng.choice(['rand', 'peaky', 'zeros', 'repeats'])), int(rng.integers(1, 8)), C) for _ in range(2)]
    # a blank-only line (no character above the pre-selection threshold in any frame: the search never leaves the empty prefix) early in the sequence
    bo = np.full((int(rng.integers(1, 4)), C), 1e-7)
    bo[:, -1] = 1.0
    bo = np.log(bo / bo.sum(1, keepdims=True))
    mats.insert(1, bo)
    mats.append(case['lp'])
    k, scale, bonus, eos = case['k'], case['scale'], case['bonus'], case['eos']
    dec = D.CTCPrefixLogRawNumpyDecoder(letters + [D.BLANK_SYMBOL], k=k, lm=lm, lm_scale=scale, insertion_bonus=bonus)

    cur = {'seed': case['lm_seed']}

    def fresh():
        if is_torch:
            raw = ctx.stubs.make_lstm_lm(letters, cur['seed'], dim=int(8 + case['lm_seed'] % 9), eos_first=(case['lm_seed'] // 2) % 2 == 1)
            l2 = ctx.LMWrapper(raw, letters, torch.device('cpu'))
        else:
            l2 = ctx.stubs.HashLM(C - 1, cur['seed'])
        return D.CTCPrefixLogRawNumpyDecoder(letters + [D.BLANK_SYMBOL], k=k, lm=l2, lm_scale=scale, insertion_bonus=bonus)

    def summary(boh, h):
        hy = sorted((x.transcript, round(float(x.vis_sc), 9), round(float(x.lm_sc), 7)) for x in boh)
        if is_torch:
            hs = [np.round(t.detach().numpy(), 6).tolist() for t in h.prepare_for_torch()]
        else:
            hs = np.asarray(h).reshape(-1).tolist()
        return hy, hs
    for n, lp in enumerate(mats):
        if n == len(mats) - 1:
            # the model behind the long-lived decoder is updated in place (adapted parameters loaded into the same object) before the last line
            cur['seed'] = case['lm_seed'] + 36
            if is_torch:
                other = ctx.stubs.make_lstm_lm(letters, cur['seed'], dim=int(8 + case['lm_seed'] % 9), eos_first=(case['lm_seed'] // 2) % 2 == 1)
                lm._lm.model.load_state_dict(other.model.state_dict())
                lm._lm.decoder.load_state_dict(other.decoder.state_dict())
            else:
                lm.seed = cur['seed']
                lm._rows.clear()
            mon.count('lm_updated_in_place')
        eos_n = bool(eos or n % 2 == 1)        # end-of-line modelling on at least every other call
        got = summary(*dec(lp.copy(), model_eos=eos_n, return_h=True))
        exp = summary(*fresh()(lp.copy(), model_eos=eos_n, return_h=True))
        mon.count('sequence_calls_checked')
        if got != exp:
            mon.violation('lm-score-is-the-models-own', {'note': 'a decoder that has decoded other lines before gives a different bag / state than a fresh one (no initial state supplied)',
                          'call_index': n, 'long_lived': got[0][:4], 'fresh': exp[0][:4], 'state_differs': got[1] != exp[1]})
            break
    mon.mark_nontrivial()


def extra(mon, ctx):
    """decoders built by decoder_factory from a configuration section that names a TorchScript LM file, at LM scales 0 / 0.5 / 2: the reported LM scores
    are the model's own whatever the scale"""
    if ctx.shard != 0:
        return
    import configparser
    import os
    from brnolm.language_models import language_model
    from pero_ocr.decoding import decoding_itf
    torch = ctx.torch
    letters = list('abc')
    rng = np.random.default_rng([ctx.seed, 3, 777])
    for n_scale, scale in enumerate(('0', '0.0', '0.5', '2')):
        # the LM file is replaced between the builds (same path, another model): every decoder gets the model that is in the file when it is built
        raw = ctx.stubs.make_lstm_lm(letters, 4242 + n_scale, dim=8, double=False)
        language_model.torchscript_export(raw, os.path.join(ctx.tmpdir, 'lm.zip'))
        mon.count('lm_file_replaced_between_builds')
        cfg = configparser.ConfigParser()
        cfg.read_dict({'DECODER': {'TYPE': 'FAST-LOG-RAW', 'BEAM_SIZE': '4', 'LM_SCALE': scale, 'USE_CPU': 'yes', 'LM': './lm.zip'}})
        import contextlib
        import io
        with contextlib.redirect_stderr(io.StringIO()), contextlib.redirect_stdout(io.StringIO()):
            dec = decoding_itf.decoder_factory(cfg['DECODER'], letters, torch.device('cpu'), config_path=ctx.tmpdir)
        for _ in range(6 if ctx.tier == 'quick' else 60):
            lp = make_matrix(rng, str(rng.choice(['rand', 'peaky', 'repeats'])), int(rng.integers(1, 7)), 4)
            boh = dec(lp.copy())
            mon.count('factory_built_decoders')
            mon.count('extra_evaluations')
            mon.cur_desc = {'leg': 'decoder_factory', 'LM_SCALE': scale, 'log_probs': lp}
            for h in boh:
                exp, _ = ctx.stubs.lstm_lm_score(raw, [letters.index(ch) for ch in h.transcript])
                if h.lm_sc is None or abs(float(h.lm_sc) - exp) > 1e-3:
                    mon.violation('lm-score-is-the-models-own', {'via': 'decoder_factory with LM_SCALE = %s' % scale, 'transcript': h.transcript, 'lm_sc': None if h.lm_sc is None else float(h.lm_sc), 'expected': exp})
                    break
