"""C11 Lines are assigned to the regions they lie in, clipped, with unique ids."""
import configparser
from shapely.validation import make_valid
import contextlib
import io
import math
import itertools

import numpy as np

from vf.genlib import same_polygon_shape as genlib_same

ID = 'C11'
LEVEL = 'exploration'
TECHNIQUE = ('runtime monitoring: shapely-predicate oracle computed independently from the inputs on every execution of assign_lines_to_regions, and a page-level invariant '
             '(all line ids distinct, every line inside its region) checked on LayoutExtractor.process_page for all 16 option combinations with a stub detector, and on TextlineExtractorSimple')
RULE = ('sets of 1-4 regions (rectangles, convex, concave U / L / comb, bow-ties, nested, overlapping) x 1-8 lines (inside, outside, crossing one or several regions, crossing a concave '
        'region twice, touching an edge, <= 2 px long); LayoutExtractor through its real constructor with a stub ParseNet for detect-regions x detect-lines x merge-lines x multi-orientation '
        'on images with horizontal and vertical strokes; TextlineExtractorSimple on synthetic text-like images. non-trivial = at least one line crossing a region boundary; '
        'distinct = hash of the region/line set or (options, image) Region ids as a multi-orientation stage names them with three suffixed passes; pocket lines of self-touching outlines (make_valid reference); baselines bending back around a corner of the region\'s bounding box; notch-targeted simple-extractor pages. Integer-grid regions and lines; lines distributed again after the outlines of the same region objects were replaced.')
RULE += ' Round 6: A 5000-cell table with 1000 lines (rare); outlines that do not cover their baseline; direction of the placed piece; inside lines below a notch whose outline ends exactly at a notch wall.'
RULE += ' Round 7: Combs with a line that crosses two teeth and ends on the wall of the third; 2x2 specks crossed diagonally.'
RULE += ' Round 8: Rows detected as chains of three fragments with every stroke covered by a placed line; rows resampled by the merge step (y values differing in the last bits).'
ASSUMPTIONS = ['for invalid (self-touching) region polygons the code clips with the convex hull: only "inside the convex hull", "piece of the detected baseline" and id uniqueness are required there',
               'containment predicates use a 1e-6 buffer; "unchanged" = same point sequence (1e-6) for the baseline and equal shape for an outline that lies inside the region',
               'regions handed to the helper have unique ids']
N = {'quick': 2000, 'thorough': 60000}
CLASSES = ['rect', 'concave', 'bowtie', 'nested', 'overlapping', 'mixed', 'mixed', 'edge_touching', 'extractor', 'simple_extractor', 'integer_grid', 'many_cells']
REQUIRED = ['extractor_pages_with_a_row_of_three_fragments', 'strokes_checked_for_coverage', 'calls_with_more_than_2^22_line_region_pairs', 'lines_with_a_detached_outline', 'placed_baseline_directions_checked', 'integer_grid_pages', 'redistributions_after_outline_change', 'suffixed_passes', 'bent_lines_placed', 'pocket_lines_checked', 'helper_calls', 'pairs_checked', 'placed_lines', 'inside_lines_placed_unchanged', 'not_touching_pairs', 'multi_entry_lines', 'invalid_region_pairs',
            'extractor_pages', 'multi_orientation_line_only_pages', 'simple_extractor_pages', 'simple_extractor_concave_pages']
SHARDS = {'quick': 8, 'thorough': 16}


def setup(ctx):
    import torch
    from pero_ocr.core import layout
    from pero_ocr.layout_engines import layout_helpers
    from pero_ocr.document_ocr import page_parser as pp
    from vf import stubs
    ctx.torch, ctx.L, ctx.H, ctx.pp, ctx.stubs = torch, layout, layout_helpers, pp, stubs
    ctx.parsenet = stubs.make_parsenet(ctx.tmpdir + '/parsenet.pt')
    ctx.extractors = {}
    ctx.combos_seen = set()


def teardown(mon, ctx):
    for le in ctx.extractors.values():
        try:
            le.pool.close()
        except Exception:
            pass


def rpoly(rng, kind):
    x0, y0 = float(rng.uniform(0, 600)), float(rng.uniform(0, 600))
    w, h = float(rng.uniform(100, 500)), float(rng.uniform(100, 500))
    if kind == 'rect':
        return [[x0, y0], [x0 + w, y0], [x0 + w, y0 + h], [x0, y0 + h]]
    if kind == 'convex':
        m = int(rng.integers(3, 8))
        ang = np.sort(rng.uniform(0, 2 * np.pi, m))
        return np.stack([x0 + w / 2 + w / 2 * np.cos(ang), y0 + h / 2 + h / 2 * np.sin(ang)], 1).tolist()
    if kind == 'U':
        t = w / 3
        return [[x0, y0], [x0 + t, y0], [x0 + t, y0 + h * 0.7], [x0 + 2 * t, y0 + h * 0.7], [x0 + 2 * t, y0], [x0 + w, y0], [x0 + w, y0 + h], [x0, y0 + h]]
    if kind == 'L':
        return [[x0, y0], [x0 + w / 3, y0], [x0 + w / 3, y0 + h * 0.6], [x0 + w, y0 + h * 0.6], [x0 + w, y0 + h], [x0, y0 + h]]
    if kind == 'comb':
        t = w / 5
        return [[x0, y0], [x0 + t, y0], [x0 + t, y0 + h * 0.6], [x0 + 2 * t, y0 + h * 0.6], [x0 + 2 * t, y0], [x0 + 3 * t, y0], [x0 + 3 * t, y0 + h * 0.6],
                [x0 + 4 * t, y0 + h * 0.6], [x0 + 4 * t, y0], [x0 + w, y0], [x0 + w, y0 + h], [x0, y0 + h]]
    return [[x0, y0], [x0 + w / 2, y0 + h / 2], [x0 + w, y0], [x0 + w, y0 + h], [x0 + w / 2, y0 + h / 2], [x0, y0 + h]]   # bow-tie


def gen(rng, i, ctx):
    cls = CLASSES[i % len(CLASSES)]
    if cls == 'extractor':
        combo = [bool(b) for b in np.unravel_index(int(rng.integers(0, 16)), (2, 2, 2, 2))]
        hl = [(int(y), int(x0), int(x0 + rng.integers(150, 500))) for y, x0 in zip(range(80, 520, int(rng.integers(60, 120))), rng.integers(40, 200, size=8))][:int(rng.integers(1, 6))]
        vl = [(int(x), 60, int(rng.integers(300, 540))) for x in rng.choice([620, 680, 740], size=int(rng.integers(0, 3)), replace=False)]
        hl = [(y, x0, min(x1, 580)) for y, x0, x1 in hl]
        # (round 8) one text row detected as a chain of three fragments: neighbours close enough to be joined by MERGE_LINES, the outer two too far apart
        if hl and rng.random() < 0.5:
            y_, x0_, x1_ = hl[int(rng.integers(0, len(hl)))]
            if x1_ - x0_ >= 260:
                g_ = int(rng.integers(10, 15))
                a_ = x0_ + (x1_ - x0_) // 3
                b_ = x0_ + 2 * (x1_ - x0_) // 3
                hl = [h_ for h_ in hl if h_[0] != y_] + [(y_, x0_, a_), (y_, a_ + g_, b_), (y_, b_ + g_, x1_)]
        return {'cls': cls, 'options': combo, 'hlines': hl, 'vlines': vl, 'regions': [[[20, 20], [780, 20], [780, 580], [20, 580]]] if rng.random() < 0.6 else
                [[[20, 20], [600, 20], [600, 580], [20, 580]], [[600, 20], [780, 20], [780, 580], [600, 580]]]}
    if cls == 'simple_extractor':
        return {'cls': cls, 'seed': int(rng.integers(0, 1 << 30)), 'n_rows': int(rng.integers(1, 6))}
    if cls == 'many_cells':
        # thousands of small regions (table cells) and a thousand short lines, each inside one cell: more than 2^22 line x region pairs in one call (one in six;
        # otherwise a 12 x 10 table)
        big = (i // len(CLASSES)) % 60 == 0
        return {'cls': cls, 'cols': 100 if big else 12, 'rows': 50 if big else 10, 'n_lines': 1000 if big else 40, 'seed': int(rng.integers(0, 1 << 30))}
    if cls == 'integer_grid':
        # coordinates on a 10-px grid (regions drawn by hand, heights rounded): line outlines whose edges run exactly along region edges
        regs, lines = [], []
        for _ in range(int(rng.integers(1, 4))):
            x0, y0 = [int(v) * 10 for v in rng.integers(0, 40, 2)]
            w, h = [int(v) * 10 for v in rng.integers(12, 50, 2)]
            t = w // 3 // 10 * 10
            yn = y0 + int(h * 0.7) // 10 * 10
            if rng.random() < 0.5:
                P = [[x0, y0], [x0 + t, y0], [x0 + t, yn], [x0 + 2 * t, yn], [x0 + 2 * t, y0], [x0 + w, y0], [x0 + w, y0 + h], [x0, y0 + h]]
            else:
                P = [[x0, y0], [x0 + t, y0], [x0 + t, yn], [x0 + w, yn], [x0 + w, y0 + h], [x0, y0 + h]]
            regs.append([[float(a), float(b)] for a, b in P])
            if rng.random() < 0.6 and y0 + h - yn >= 40:
                # a line below the notch / step, wholly inside the region, whose outline reaches up into the notch and ends exactly at one of its walls
                asc = int(rng.integers(2, 4)) * 10
                lines.append({'baseline': [[float(x0 + 10), float(yn + 10)], [float(x0 + (2 * t if len(P) == 8 else t) ), float(yn + 10)]], 'heights': [float(asc), 5.0], 'kind': 'grid'})
            for _ in range(int(rng.integers(1, 4))):
                ye = int(rng.choice(sorted({p[1] for p in P})))
                asc, desc = int(rng.integers(1, 4)) * 10, int(rng.integers(1, 3)) * 5
                y = ye + asc if rng.random() < 0.5 else ye - desc
                xa, xb = x0 - int(rng.integers(-5, 8)) * 10, x0 + w + int(rng.integers(-5, 8)) * 10
                if xb - xa >= 20:
                    lines.append({'baseline': [[float(xa), float(y)], [float(xb), float(y)]], 'heights': [float(asc), float(desc)], 'kind': 'grid'})
        if rng.random() < 0.5:
            # (round 7) a comb with three teeth and a line that crosses two of them and ends exactly on the wall of the third: the clipped baseline is two pieces and a point
            x0, y0 = [int(v) * 10 for v in rng.integers(0, 40, 2)]
            w1, w2, w3 = [int(v) * 10 for v in rng.permutation([2, 3, 5])]
            g1, g2 = [int(v) * 10 for v in rng.integers(1, 4, 2)]
            bar, depth = int(rng.integers(1, 3)) * 10, int(rng.integers(4, 9)) * 10
            xs = [x0, x0 + w1, x0 + w1 + g1, x0 + w1 + g1 + w2, x0 + w1 + g1 + w2 + g2, x0 + w1 + g1 + w2 + g2 + w3]
            yb, yt = y0 + bar, y0 + bar + depth
            P = [[xs[0], y0], [xs[5], y0], [xs[5], yt], [xs[4], yt], [xs[4], yb], [xs[3], yb], [xs[3], yt], [xs[2], yt], [xs[2], yb], [xs[1], yb], [xs[1], yt], [xs[0], yt]]
            regs.append([[float(a), float(b)] for a, b in P])
            y = yb + int(rng.integers(1, depth // 10)) * 10
            if rng.random() < 0.5:
                bl = [[float(xs[0] - 10 * int(rng.integers(0, 3))), float(y)], [float(xs[4]), float(y)]]       # ends on the left wall of the third tooth
            else:
                bl = [[float(xs[1]), float(y)], [float(xs[5] + 10 * int(rng.integers(0, 3))), float(y)]]       # starts on the right wall of the first tooth
            lines.append({'baseline': bl, 'heights': [float(int(rng.integers(1, 3)) * 5), 5.0], 'kind': 'grid'})
        if not lines:
            lines.append({'baseline': [[0.0, 5.0], [50.0, 5.0]], 'heights': [10.0, 5.0], 'kind': 'grid'})
        return {'cls': cls, 'regions': regs, 'lines': lines, 'region_ids': ['r%d' % k for k in range(len(regs))]}
    kinds = {'rect': ['rect'], 'concave': ['U', 'L', 'comb'], 'bowtie': ['bowtie', 'rect'], 'nested': ['rect'], 'overlapping': ['rect', 'convex'],
             'mixed': ['rect', 'convex', 'U', 'L', 'comb', 'bowtie'], 'edge_touching': ['rect']}[cls]
    regs = [rpoly(rng, str(rng.choice(kinds))) for _ in range(int(rng.integers(1, 5)))]
    if cls == 'nested' and regs:
        x0, y0 = regs[0][0]; x1, y1 = regs[0][2]
        regs.append([[x0 + 30, y0 + 30], [x1 - 30, y0 + 30], [x1 - 30, y1 - 30], [x0 + 30, y1 - 30]])
    if cls == 'overlapping' and regs:
        p = np.array(regs[0])
        regs.append((p + [40, 25]).tolist())
    lines = []
    for _ in range(int(rng.integers(1, 9))):
        x0, y0 = float(rng.uniform(-50, 900)), float(rng.uniform(-50, 1100))
        L = float(rng.choice([rng.uniform(1, 3), rng.uniform(3, 700), rng.uniform(300, 1100)]))
        ang = float(rng.uniform(-0.3, 0.3))
        if cls == 'edge_touching' and regs:
            r = np.array(regs[int(rng.integers(0, len(regs)))])
            y0 = float(r[:, 1].min()) if rng.random() < 0.5 else float(r[:, 1].max())
            x0 = float(r[:, 0].min() + rng.uniform(-50, 50)); ang = 0.0
        if rng.random() < 0.25 and regs:
            # a short line just inside one of the four edges of a region's bounding box
            r = np.array(regs[int(rng.integers(0, len(regs)))])
            xa, ya, xb, yb = r[:, 0].min(), r[:, 1].min(), r[:, 0].max(), r[:, 1].max()
            side = int(rng.integers(0, 4))
            L = float(rng.uniform(3, 25))
            ang = 0.0
            if side == 0:
                x0, y0 = float(xb - L - rng.uniform(0.5, 8)), float(rng.uniform(ya + 2, max(ya + 3, yb - 5)))
            elif side == 1:
                x0, y0 = float(xa + rng.uniform(0.5, 8)), float(rng.uniform(ya + 2, max(ya + 3, yb - 5)))
            elif side == 2:
                x0, y0 = float(rng.uniform(xa + 2, max(xa + 3, xb - 30))), float(ya + rng.uniform(0.5, 8))
            else:
                x0, y0 = float(rng.uniform(xa + 2, max(xa + 3, xb - 30))), float(yb - rng.uniform(0.5, 8))
        elif rng.random() < 0.4 and regs:
            # a line placed inside a region
            r = np.array(regs[int(rng.integers(0, len(regs)))])
            cx, cy = r[:, 0].mean(), r[:, 1].mean()
            x0, y0, L = float(cx - rng.uniform(5, 40)), float(cy + rng.uniform(-10, 40)), float(rng.uniform(5, 60))
        k = int(rng.integers(2, 6))
        ts = np.linspace(0, 1, k)
        b = np.stack([x0 + ts * L * np.cos(ang), y0 + ts * L * np.sin(ang) + (rng.uniform(-2, 2, k) if k > 2 else 0)], 1)
        lines.append({'baseline': b.tolist(), 'heights': [float(rng.uniform(5, 30)), float(rng.uniform(2, 10))]})
    # drawn last so that earlier rounds' cases stay the same
    for _ in range(int(rng.integers(0, 3))):
        r = np.array(regs[int(rng.integers(0, len(regs)))])
        xa, ya, xb, yb = r[:, 0].min(), r[:, 1].min(), r[:, 0].max(), r[:, 1].max()
        if rng.random() < 0.5:
            # a baseline that bends back: both end points lie diagonally off a corner of the region's bounding box, the middle runs through the region
            sx, sy = [(1, 1), (-1, 1), (1, -1), (-1, -1)][int(rng.integers(0, 4))]
            cx, cy = (xb if sx > 0 else xa), (yb if sy > 0 else ya)
            d0, d1, dip = float(rng.uniform(5, 40)), float(rng.uniform(45, 90)), float(rng.uniform(20, 80))
            p0, p2 = [cx + sx * d0, cy + sy * d1], [cx + sx * d1, cy + sy * d0]
            mid = [cx - sx * dip, cy - sy * dip]
            k = int(rng.integers(0, 3))
            if rng.random() < 0.6:
                # the same as a smooth arc (text around a seal): nearly a full circle around a point just inside the corner
                a, R, dl = float(rng.uniform(5, 15)), float(rng.uniform(50, 90)), math.radians(float(rng.uniform(10, 25)))
                diag = math.atan2(sy, sx)
                th = np.linspace(diag + dl, diag - dl + 2 * math.pi, int(rng.integers(8, 17)))
                lines.append({'baseline': np.stack([cx - sx * a + R * np.cos(th), cy - sy * a + R * np.sin(th)], 1).tolist(),
                              'heights': [float(rng.uniform(3, 8)), float(rng.uniform(1, 4))], 'kind': 'bent'})
                continue
            pts = [p0] + [[p0[0] + (mid[0] - p0[0]) * t, p0[1] + (mid[1] - p0[1]) * t] for t in np.linspace(0, 1, k + 2)[1:-1]] + [mid] + \
                  [[mid[0] + (p2[0] - mid[0]) * t, mid[1] + (p2[1] - mid[1]) * t] for t in np.linspace(0, 1, k + 2)[1:-1]] + [p2]
            lines.append({'baseline': pts, 'heights': [float(rng.uniform(5, 15)), float(rng.uniform(2, 6))], 'kind': 'bent'})
        else:
            # a short line in the pocket between a self-touching outline and its convex hull (or simply near the top edge for other shapes)
            w_, h_ = xb - xa, yb - ya
            L = float(rng.uniform(5, max(6.0, 0.3 * w_)))
            depth = float(rng.uniform(3, 0.12 * h_ + 3))
            top = rng.random() < 0.5
            y = float(ya + depth) if top else float(yb - depth)
            x0 = float((xa + xb) / 2 - L / 2)
            lines.append({'baseline': [[x0, y], [x0 + L, y]], 'heights': [float(min(depth * 0.6, 8.0)), 1.0], 'kind': 'pocket'})
    # a few lines whose outline does not cover their baseline (short lines inside a region)
    for _ in range(int(rng.integers(0, 2))):
        r = np.array(regs[int(rng.integers(0, len(regs)))])
        cx, cy = r[:, 0].mean(), r[:, 1].mean()
        x0, y0, L = float(cx - rng.uniform(5, 40)), float(cy + rng.uniform(-10, 40)), float(rng.uniform(10, 60))
        lines.append({'baseline': [[x0, y0], [x0 + L, y0 + float(rng.uniform(-3, 3))]], 'heights': [float(rng.uniform(5, 15)), float(rng.uniform(2, 6))], 'kind': 'detached'})
    if regs and rng.random() < 0.35:
        # (round 8) a text row as the line-merging step leaves it: ten resampled points on a level row whose y values differ in the last bits (polynomial fit)
        r = np.array(regs[int(rng.integers(0, len(regs)))])
        cx, cy = float(r[:, 0].mean()), float(int(r[:, 1].mean()))
        L_ = float(rng.uniform(40, 160))
        xs_ = np.linspace(cx - L_ / 2, cx + L_ / 2, 10)
        ys_ = cy + np.cumsum(rng.integers(0, 3, size=10)) * np.spacing(cy)
        lines.append({'baseline': np.stack([xs_, ys_], 1).tolist(), 'heights': [12.0, 4.0], 'kind': 'resampled'})
    if rng.random() < 0.15 and len(regs) < 5:
        # (round 7) a region of 2 x 2 px (a speck kept by the region detector) crossed diagonally: the piece inside is 2.83 px long
        xs_, ys_ = float(int(rng.integers(900, 1000))), float(int(rng.integers(20, 900)))
        regs.append([[xs_, ys_], [xs_ + 2, ys_], [xs_ + 2, ys_ + 2], [xs_, ys_ + 2]])
        e_ = float(rng.choice([0.0, 1.0, 3.0]))
        lines.append({'baseline': [[xs_ - e_, ys_ - e_], [xs_ + 2 + e_, ys_ + 2 + e_]], 'heights': [3.0, 2.0], 'kind': 'speck'})
    names = [['r%d' % k for k in range(len(regs))], ['r000', 'r000_1', 'r001', 'r001_1', 'r000_3'][:len(regs)], ['r000_1', 'r000', 'r000_3', 'r001', 'r001_3'][:len(regs)]][int(rng.integers(0, 3))]
    return {'cls': cls, 'regions': regs, 'lines': lines, 'region_ids': names}


def describe(case):
    return case


def line_pieces(geom):
    """the one-dimensional parts of a clipped baseline (a touching point or a stray vertex is not a piece); parts that touch end to end are one piece
    (GEOS may cut a line at its own vertices)"""
    if geom.geom_type == 'LineString':
        return [geom] if geom.length > 0 else []
    if geom.geom_type in ('MultiLineString', 'GeometryCollection'):
        parts = [g for g in geom.geoms if g.geom_type == 'LineString' and g.length > 0]
        if len(parts) > 1:
            from shapely.ops import linemerge
            merged = linemerge(parts)
            parts = list(merged.geoms) if merged.geom_type == 'MultiLineString' else [merged]
        return parts
    return []


def check(case, mon, ctx):
    if case['cls'] == 'extractor':
        return check_extractor(case, mon, ctx)
    if case['cls'] == 'simple_extractor':
        return check_simple(case, mon, ctx)
    if case['cls'] == 'many_cells':
        return check_many_cells(case, mon, ctx)
    import shapely.geometry as sg
    L, Hh = ctx.L, ctx.H
    names = case.get('region_ids') or ['r%d' % k for k in range(len(case['regions']))]
    regs = [L.RegionLayout(names[k], np.array(p, dtype=np.float64)) for k, p in enumerate(case['regions'])]
    bls = [np.array(l['baseline'], dtype=np.float64) for l in case['lines']]
    hs = [l['heights'] for l in case['lines']]
    tls = [Hh.baseline_to_textline(b, h) for b, h in zip(bls, hs)]
    for k_, l_ in enumerate(case['lines']):
        if l_.get('kind') == 'detached':
            # the outline was left behind by an earlier stage (it belongs to another part of the line): it lies up-left of the baseline, apart from it in both axes
            tls[k_] = Hh.baseline_to_textline(bls[k_] - np.array([260.0, 170.0]), hs[k_])
            mon.count('lines_with_a_detached_outline')
    with contextlib.redirect_stdout(io.StringIO()):
        out = Hh.assign_lines_to_regions([b.copy() for b in bls], hs, [t.copy() for t in tls], regs)
    mon.count('helper_calls')
    mon.observe('placed lines', [(r.id, l.id, np.round(np.asarray(l.baseline, dtype=np.float64), 4).tolist()) for r in out for l in r.lines])
    ids = [l.id for r in out for l in r.lines]
    if len(ids) != len(set(ids)):
        mon.violation('line-ids-distinct', {'ids': ids})
    if [r.id for r in out] != [r.id for r in regs]:
        mon.violation('regions-returned', {'got': [r.id for r in out]})
    nontriv = False
    for r in out:
        P = sg.Polygon(r.polygon)
        valid = P.is_valid
        Pv = P if valid else P.convex_hull
        Preal = P if valid else make_valid(P)          # what the outline really encloses (a bow-tie = its two triangles)
        placed = {}
        for l in r.lines:
            k = int(l.id[len(r.id):].split('-l')[1]) - 1
            if not l.id.startswith(r.id + '-l') or k in placed:
                mon.violation('line-ids-distinct', {'region': r.id, 'line': l.id})
            placed[k] = l
        for li, (b, t) in enumerate(zip(bls, tls)):
            B = sg.LineString(b)
            mon.count('pairs_checked')
            if not valid:
                mon.count('invalid_region_pairs')
            w = {'region': r.id, 'region_valid': valid, 'line': li, 'baseline': b}
            try:
                touches = P.intersects(B) if valid else Pv.intersects(B)
                really_touches = Preal.buffer(1e-6).intersects(B)
            except Exception:
                touches = really_touches = None
            inside = valid and Pv.contains(B) and not Pv.boundary.intersects(B)        # wholly inside: in the interior (a baseline running along an edge of the region is a borderline case the statement does not settle)
            inter = Pv.intersection(B)
            if inter.geom_type == 'MultiLineString':
                mon.count('multi_entry_lines')
            if touches and not inside:
                nontriv = True
            if li in placed:
                l = placed[li]
                mon.count('placed_lines')
                lb = sg.LineString(l.baseline)
                if not Pv.buffer(1e-6).contains(lb):
                    mon.violation('placed-baseline-inside-region', dict(w, placed=l.baseline))
                if not B.buffer(1e-6).contains(lb):
                    mon.violation('placed-baseline-is-a-piece-of-the-detected-baseline', dict(w, placed=l.baseline))
                elif B.is_simple and Pv.boundary.intersection(B).length < 1e-9:       # (a baseline running along an edge of the region: borderline, the overlay may return it in the ring's direction)
                    # ... in the same direction: its points are met in this order when walking along the detected baseline
                    along = [B.project(sg.Point(p_)) for p_ in np.asarray(l.baseline, dtype=np.float64)]
                    mon.count('placed_baseline_directions_checked')
                    if any(y_ < x_ - 1e-6 for x_, y_ in zip(along, along[1:])):
                        mon.violation('placed-baseline-is-a-piece-of-the-detected-baseline', dict(w, placed=l.baseline, note='the piece runs against the detected baseline', positions_along_the_baseline=along))
                if len(l.polygon) == 0:
                    mon.count('lines_placed_with_an_empty_outline')      # (the detected outline does not reach this region at all: nothing of it is left after clipping)
                elif not Pv.buffer(1e-6).contains(sg.Polygon(l.polygon)):
                    mon.violation('placed-outline-clipped-to-region', dict(w, outline=l.polygon))
                if list(l.heights) != list(hs[li]):
                    mon.violation('heights-kept', dict(w, got=l.heights))
                if touches is False:
                    mon.violation('non-touching-line-never-placed', w)
                elif really_touches is False:
                    mon.count('pocket_lines_checked')
                    mon.violation('non-touching-line-never-placed', dict(w, note='the line lies between the self-touching outline and its convex hull and touches nothing the outline encloses'))
                if valid and line_pieces(inter):
                    longest = max(g.length for g in line_pieces(inter))
                    if abs(lb.length - longest) > 1e-6:
                        mon.violation('keeps-longest-piece', dict(w, placed_length=lb.length, longest=longest))
                if case['lines'][li].get('kind') == 'bent':
                    mon.count('bent_lines_placed')
                if inside and B.length > 2:
                    mon.count('inside_lines_placed_unchanged')
                    if l.baseline.shape != b.shape or np.abs(l.baseline - b).max() > 1e-6:
                        mon.violation('inside-line-placed-unchanged', dict(w, placed=l.baseline))
                    T = sg.Polygon(t)
                    if T.is_valid and Pv.buffer(-1e-3).contains(T) and not genlib_same(l.polygon, t):
                        mon.violation('inside-line-placed-unchanged', dict(w, what='outline', placed=l.polygon))
            else:
                if touches is False:
                    mon.count('not_touching_pairs')
                elif really_touches is False:
                    mon.count('pocket_lines_checked')
                if valid and line_pieces(inter):
                    longest = max(g.length for g in line_pieces(inter))
                    T = sg.Polygon(t)
                    if longest > 2.001 and T.is_valid and P.intersection(T).area > 1e-6:
                        mon.violation('entering-line-keeps-its-longest-piece', dict(w, longest_piece=longest, note='the line enters the region but nothing was placed',
                                                                                  kind=case['lines'][li].get('kind')))
                if valid and inter.geom_type in ('MultiLineString', 'LineString') and case['lines'][li].get('kind') == 'bent':
                    mon.count('bent_lines_not_placed')
                if inside and B.length > 2:
                    T = sg.Polygon(t)
                    mon.violation('line-inside-region-always-placed', dict(w, baseline_length=B.length, outline_valid=T.is_valid))
    if nontriv:
        mon.mark_nontrivial()
    if case['cls'] == 'integer_grid':
        mon.count('integer_grid_pages')
    # history on the region objects: their outlines are replaced (re-traced, rotated, moved), their lines removed, and the lines are distributed again -
    # the result is that of regions built from scratch with the new outlines
    moved = [np.asarray(r.polygon, dtype=np.float64) * np.array([0.8, 1.1]) + np.array([35.0, -20.0]) for r in out]
    fresh = [L.RegionLayout(r.id, m.copy()) for r, m in zip(out, moved)]
    for r, m in zip(out, moved):
        r.polygon = m.copy()
        r.lines = []
    with contextlib.redirect_stdout(io.StringIO()):
        again = Hh.assign_lines_to_regions([b.copy() for b in bls], hs, [t.copy() for t in tls], out)
        ref = Hh.assign_lines_to_regions([b.copy() for b in bls], hs, [t.copy() for t in tls], fresh)
    mon.count('redistributions_after_outline_change')
    summ = lambda rr: [(r.id, [(l.id, np.round(np.asarray(l.baseline, dtype=np.float64), 6).tolist(), np.round(np.asarray(l.polygon, dtype=np.float64), 6).tolist()) for l in r.lines]) for r in rr]
    if summ(again) != summ(ref):
        k = next(i for i, (a, b) in enumerate(zip(summ(again), summ(ref))) if a != b)
        mon.violation('placed-baseline-inside-region', {'note': 'lines distributed again after the region outlines were replaced: the result differs from that of regions built from scratch with the new outlines',
                      'region': again[k].id, 'lines_reused_object': [l.id for l in again[k].lines], 'lines_fresh_object': [l.id for l in ref[k].lines]}, mechanism='redistribution-after-outline-change')
    for r in out:
        r.lines = []
    # the multi-orientation extractor distributes the lines of each rotated pass to the same regions with an id suffix: all ids stay distinct
    for suffix in ('', '_1', '_3'):
        with contextlib.redirect_stdout(io.StringIO()):
            out = Hh.assign_lines_to_regions([b.copy() for b in bls], hs, [t.copy() for t in tls], out, id_suffix=suffix)
    mon.count('suffixed_passes')
    ids = [l.id for r in out for l in r.lines]
    dup = sorted({x for x in ids if ids.count(x) > 1})
    if dup:
        mon.violation('line-ids-distinct', {'after': 'three passes over the same regions with id suffixes "", "_1", "_3"', 'region_ids': [r.id for r in out], 'duplicate_ids': dup})


def get_extractor(ctx, combo):
    key = tuple(combo)
    if key not in ctx.extractors:
        dr, dl, ml, mo = combo
        cfg = configparser.ConfigParser()
        cfg.read_dict({'L': {'DETECT_REGIONS': str(dr), 'DETECT_LINES': str(dl), 'DETECT_STRAIGHT_LINES_IN_REGIONS': 'no', 'MERGE_LINES': str(ml), 'ADJUST_HEIGHTS': 'no',
                             'MULTI_ORIENTATION': str(mo), 'ADJUST_BASELINES': 'no', 'USE_CPU': 'yes', 'MODEL_PATH': ctx.parsenet, 'DOWNSAMPLE': '2', 'ADAPTIVE_DOWNSAMPLE': 'no',
                             'DETECTION_THRESHOLD': '0.2', 'MAX_MEGAPIXELS': '5'}})
        with contextlib.redirect_stdout(io.StringIO()):
            ctx.extractors[key] = ctx.pp.LayoutExtractor(cfg['L'], ctx.torch.device('cpu'))
    return ctx.extractors[key]


def check_page_invariants(out, mon, w):
    import shapely.geometry as sg
    ids = [l.id for l in out.lines_iterator()]
    dup = sorted({x for x in ids if ids.count(x) > 1})
    if dup:
        mon.violation('line-ids-distinct', dict(w, duplicate_ids=dup, all_ids=ids))
    rids = [r.id for r in out.regions]
    if len(rids) != len(set(rids)):
        mon.violation('region-ids-distinct', dict(w, ids=rids))
    for r in out.regions:
        P = sg.Polygon(r.polygon)
        Pv = P if P.is_valid else P.convex_hull
        for l in r.lines:
            if len(l.baseline) >= 2 and not Pv.buffer(1e-3).contains(sg.LineString(l.baseline)):
                mon.violation('placed-baseline-inside-region', dict(w, region=r.id, line=l.id, baseline=l.baseline))
            if len(l.polygon) >= 3 and not Pv.buffer(1e-3).contains(sg.Polygon(l.polygon)):
                mon.violation('placed-outline-clipped-to-region', dict(w, region=r.id, line=l.id))


def check_extractor(case, mon, ctx):
    L = ctx.L
    combo = case['options']
    le = get_extractor(ctx, combo)
    ctx.combos_seen.add(tuple(combo))
    img = ctx.stubs.stroke_image(case['hlines'], case['vlines'])
    pl = L.PageLayout(id='p', page_size=(600, 800))
    # given regions are named as an earlier stage may have named them: plainly, or as a multi-orientation region stage does (r000, r000_1)
    names = [['r1', 'r2'], ['r000_1', 'r000'], ['r000', 'r000_1'], ['r000_3', 'r000']][(len(case['hlines']) + len(case['vlines'])) % 4]
    pl.regions = [L.RegionLayout(names[k], np.array(p, dtype=np.float64)) for k, p in enumerate(case['regions'])]
    dr, dl, ml, mo = combo
    w = {'DETECT_REGIONS': dr, 'DETECT_LINES': dl, 'MERGE_LINES': ml, 'MULTI_ORIENTATION': mo}
    try:
        with contextlib.redirect_stdout(io.StringIO()):
            out = le.process_page(img, pl)
    except Exception as e:
        mon.violation('extractor-raises', dict(w, exception=repr(e)[:300]))
        return
    mon.count('extractor_pages')
    mon.count('extractor_options:regions=%d,lines=%d,merge=%d,multi_orientation=%d' % (dr, dl, ml, mo))
    if mo and dl and not dr:
        mon.count('multi_orientation_line_only_pages')
    mon.mark_nontrivial()
    if dl and case['hlines'] and sum(len(r.lines) for r in out.regions) == 0:
        mon.violation('detected-lines-are-placed', dict(w, note='strokes present but no line placed'))
    check_page_invariants(out, mon, w)
    if dl and not dr and not mo:
        # (upright analysis only: in the rotated passes the stub detector reports other things than the strokes)
        # every detected stroke lies inside a given region, so it is still there after the distribution: alone or as part of a merged line
        placed = [np.asarray(l.baseline, dtype=np.float64) for r in out.regions for l in r.lines]
        rows_ = {}
        for y_, x0_, x1_ in case['hlines']:
            rows_.setdefault(y_, []).append((x0_, x1_))
        if any(len(v) >= 3 for v in rows_.values()):
            mon.count('extractor_pages_with_a_row_of_three_fragments')
        for y_, x0_, x1_ in case['hlines']:
            mon.count('strokes_checked_for_coverage')
            ok = any(b[:, 0].min() <= x0_ + 6 and b[:, 0].max() >= x1_ - 6 and np.abs(np.interp([x0_ + 6, x1_ - 6], b[:, 0], b[:, 1]) - y_).max() <= 6 for b in placed if len(b) >= 2 and b[-1, 0] > b[0, 0])
            if not ok:
                mon.violation('detected-lines-are-placed', dict(w, stroke=[y_, x0_, x1_], strokes_of_the_row=sorted(rows_[y_]), note='no placed line covers this stroke', placed_lines=len(placed)))
                break


def check_simple(case, mon, ctx):
    L = ctx.L
    rng = np.random.default_rng(case['seed'])
    img = np.full((400, 600, 3), 255, np.uint8)
    for k in range(case['n_rows']):
        y = 50 + 60 * k
        x = 40
        while x < 520:
            wl = int(rng.integers(8, 30))
            img[y:y + int(rng.integers(14, 22)), x:x + wl] = 0
            x += wl + int(rng.integers(3, 9))
    cfg = configparser.ConfigParser()
    cfg.read_dict({'S': {'ADAPTIVE_THRESHOLD': '21', 'BLOCK_SIZE': '11', 'MINIMUM_LENGTH': '50', 'IGNORED_BORDER_PIXELS': '5'}})
    ex = ctx.pp.TextlineExtractorSimple(cfg['S'])
    pl = L.PageLayout(id='p', page_size=(400, 600))
    if case['seed'] % 2:
        # a U-shaped region whose text rows cross the notch (two columns in the arms of the U), and a plain one
        # the notch ends between the top and the baseline of one text row: that row's baseline runs below the notch, its outline would reach into it
        ny = 300 if case['seed'] % 4 == 1 else 50 + 60 * int(rng.integers(0, case['n_rows'])) + int(rng.integers(3, 12))
        pl.regions = [L.RegionLayout('r1', np.array([[10, 10], [250, 10], [250, ny], [350, ny], [350, 10], [590, 10], [590, 390], [10, 390]])),
                      L.RegionLayout('r2', np.array([[260, 10], [340, 10], [340, ny - 10], [260, ny - 10]]))]
        img[:, 250:350] = 255
        mon.count('simple_extractor_concave_pages')
    else:
        pl.regions = [L.RegionLayout('r1', np.array([[10, 10], [590, 10], [590, 200], [10, 200]])), L.RegionLayout('r2', np.array([[10, 200], [590, 200], [590, 390], [10, 390]]))]
    try:
        with contextlib.redirect_stdout(io.StringIO()):
            out = ex.process_page(img, pl)
    except Exception as e:
        mon.violation('extractor-raises', {'extractor': 'TextlineExtractorSimple', 'exception': repr(e)[:300]})
        return
    mon.count('simple_extractor_pages')
    mon.count('simple_extractor_lines', sum(len(r.lines) for r in out.regions))
    check_page_invariants(out, mon, {'extractor': 'TextlineExtractorSimple', 'seed': case['seed']})


def check_many_cells(case, mon, ctx):
    """a table of cols x rows cells (30 x 24 px each) and short lines, each wholly inside one cell: every line is placed exactly once, in its cell, unchanged"""
    L, Hh = ctx.L, ctx.H
    rng = np.random.default_rng(case['seed'])
    cols, rows, n = case['cols'], case['rows'], case['n_lines']
    regs = [L.RegionLayout('c%04d' % (r * cols + c), np.array([[30.0 * c, 24.0 * r], [30.0 * c + 30, 24.0 * r], [30.0 * c + 30, 24.0 * r + 24], [30.0 * c, 24.0 * r + 24]])) for r in range(rows) for c in range(cols)]
    cells = rng.choice(cols * rows, size=n, replace=False)
    bls, hs = [], []
    for cell in cells:
        r, c = divmod(int(cell), cols)
        y = 24.0 * r + float(rng.uniform(12, 18))
        bls.append(np.array([[30.0 * c + 4, y], [30.0 * c + 26, y + float(rng.uniform(-1, 1))]]))
        hs.append([8.0, 3.0])
    tls = [Hh.baseline_to_textline(b, h) for b, h in zip(bls, hs)]
    with contextlib.redirect_stdout(io.StringIO()):
        out = Hh.assign_lines_to_regions([b.copy() for b in bls], hs, [t.copy() for t in tls], regs)
    mon.count('helper_calls')
    mon.count('many_cell_pages')
    if len(bls) * len(regs) > (1 << 22):
        mon.count('calls_with_more_than_2^22_line_region_pairs')
    mon.mark_nontrivial()
    placed = [(r.id, l) for r in out for l in r.lines]
    ids = [l.id for _, l in placed]
    if len(ids) != len(set(ids)):
        mon.violation('line-ids-distinct', {'cells': cols * rows, 'lines': n, 'placed': len(ids), 'distinct': len(set(ids))})
    by_region = {}
    for rid, l in placed:
        by_region.setdefault(rid, []).append(l)
    missing = 0
    for k, cell in enumerate(cells):
        got = by_region.get('c%04d' % int(cell), [])
        if not any(np.asarray(l.baseline).shape == bls[k].shape and np.abs(np.asarray(l.baseline) - bls[k]).max() <= 1e-6 for l in got):
            missing += 1
    if missing or len(placed) != n:
        mon.violation('line-inside-region-always-placed', {'cells': cols * rows, 'lines': n, 'placed': len(placed), 'lines_not_found_unchanged_in_their_cell': missing})
