"""C17 Resuming an interrupted batch completes every requested output."""
import itertools
import os
import shutil
import subprocess
import sys

import numpy as np

from vf import pipeline

ID = 'C17'
LEVEL = 'fault_enumeration'
TECHNIQUE = ('runtime monitoring with fault injection: the real parse_folder.main() is run with recorders on every output write (PAGE XML, logits, ALTO, cv2.imwrite) and on page processing; a kill is '
             'injected instead of write number p+1 for every position p, the batch is resumed with -s, and an offline checker compares the final tree and the page-event log with an uninterrupted '
             'reference run; a sample of positions is replayed as real processes killed with os._exit to validate the simulation')
RULE = ('7 pages x 2 lines (ids a, b.v2, c.jpg_x, d.xml, e.logits.1, f, f.b), cropper + stub OCR; scenario = (subset of the five output kinds, sequence of 1-3 crash positions in 0..#writes, then a final resume). '
        'quick: every single crash position for all five outputs, and for each of the other 30 subsets every position inside the first page, inside a middle page and after the last write, + 30 random double/triple crashes + the nothing-to-do runs; thorough: all 31 subsets x every single position, pairs of positions on a (2,3)-grid for three '
        'subsets, 600 random double/triple crashes, real-process kills. non-trivial = at least one crash strictly inside the batch; distinct = hash of (subset, crash sequence) Crash points also inside to_pagexml / to_altoxml (assembly of the document text); LMDB form of the crop output; a batch with a decoder stage crashed, resumed and run twice with nothing to do. Folders from the configuration file; glob characters in the output path; a dot-prefixed page id; input PAGE XML naming another image.')
RULE += ' Round 6: A batch without images; a later run that requests more outputs; page ids a / a-1.'
RULE += ' Round 7: A second delivery into output folders holding an earlier one (ids differing in letter case, a page without lines).'
RULE += ' Round 8: Resumes with more worker processes than pages left; line crops requested only by a later run.'
ASSUMPTIONS = ['a kill happens between two events, an event being an output write or the creation of an output folder (each is atomic); simulated by raising a BaseException subclass instead of the next event, validated against real os._exit kills',
               'outputs are compared modulo Created/LastChange/processingDateTime; logits by unpickled content; JPEGs byte-wise', '"complete page" = all its requested outputs exist when the run starts']
N = {'quick': 0, 'thorough': 0}      # filled in by scenarios()
CLASSES = ['single_crash', 'multi_crash', 'no_crash']
REQUIRED = ['parallel_resume_scenarios', 'second_delivery_scenarios', 'xml_only_scenarios', 'widened_request_scenarios', 'scenarios_with_folders_from_the_configuration_file', 'scenarios_with_glob_characters_in_the_output_path', 'lmdb_scenarios', 'decoder_batch_runs', 'scenarios', 'crash_runs', 'resume_runs', 'crashes_inside_batch', 'final_trees_compared', 'page_events', 'nothing_to_do_runs', 'real_kills_compared']
KNOWN_CROPS = 'line crops are the only requested output'
IDS = ('a', 'a-1', 'b.v2', 'c.jpg_x', 'd.xml', 'e.logits.1', 'f', 'f.b', '.cover')     # 'a-1': its crop files a-1-<line>.jpg also match the pattern a-*.jpg of page 'a'; '.cover': a hidden-file name; 'b.v2' and 'f': their input PAGE XML names another image file; 'f' / 'f.b': file-name order (f.b.png < f.png) and id order (f < f.b) disagree
ALL = ['xml', 'render', 'logits', 'alto', 'line']
SHARDS = {'quick': 12, 'thorough': 16}
TIMEOUT = {'quick': 900, 'thorough': 10800}
EXHAUSTIVE_KEY = 'single_crash_positions_enumerated'
EXHAUSTIVE_NOTE = 'every single crash position 0..#writes of each listed configuration (subset of output kinds) is enumerated'


class Kill(BaseException):
    pass


POINTS = {'xml': 2, 'alto': 2, 'render': 1, 'logits': 1, 'lmdb': 1}     # xml / alto: the write call and, inside it, the assembly of the document text


def writes_of(kinds, n_lines=2):
    """crash points of the page loop: every output write; for the two XML kinds also the point inside the write call at which the document
    text is assembled (a kill there must not leave anything that marks the page as done)"""
    per_page = sum(POINTS[k] for k in kinds if k != 'line') + (n_lines if 'line' in kinds else 0)
    return per_page * len(IDS)


def events_of(kinds):
    """crash points of a first run: one directory creation per requested output folder + the points of the page loop"""
    return writes_of(kinds) + len(kinds) + 1       # + 1: os.makedirs creates the common parent folder through a recursive call


def scenarios(tier, seed):
    rng = np.random.default_rng([seed, 17])
    out = []
    subsets = [list(c) for r in range(1, 6) for c in itertools.combinations(ALL, r)]
    if tier == 'quick':
        chosen = [ALL]
    else:
        chosen = subsets
    for kinds in chosen:
        nw = events_of(kinds)
        out.append((kinds, ()))
        for p in range(nw + 1):
            out.append((kinds, (p,)))
    if tier == 'quick':
        # every configuration: every crash position inside the FIRST page (output folders still empty) and inside a middle page, and after the last write
        for kinds in subsets:
            if kinds == ALL:
                continue
            nd = len(kinds) + 1
            nw = events_of(kinds)
            pp = writes_of(kinds) // len(IDS)
            out.append((kinds, ()))
            for p in sorted(set(list(range(0, nd + pp + 1)) + list(range(nd + 2 * pp, nd + 3 * pp + 1)) + [nw])):
                out.append((kinds, (p,)))
    # the LMDB form of the line-crop output (a line path containing 'lmdb'): one record per crop, written in one transaction per page
    for kinds in (['xml', 'lmdb'], ['xml', 'render', 'logits', 'alto', 'lmdb'], ['logits', 'lmdb']):
        nd = len(kinds) + 1
        nw = events_of(kinds)
        pp = writes_of(kinds) // len(IDS)
        out.append((kinds, ()))
        pos = range(nw + 1) if tier == 'thorough' else sorted(set(list(range(0, nd + pp + 1)) + list(range(nd + 2 * pp, nd + 3 * pp + 1)) + [nw - 1, nw]))
        for p in pos:
            out.append((kinds, (p,)))
        out.append((kinds, (nd + pp + 1, nd + 1)))
    if tier == 'thorough':
        for kinds in (ALL, ['xml', 'logits', 'alto'], ['render', 'line']):
            nw = events_of(kinds)
            for p, q in itertools.product(range(0, nw + 1, 2), range(0, nw + 1, 3)):
                out.append((kinds, (p, q)))
    nrand = 30 if tier == 'quick' else 600
    for _ in range(nrand):
        kinds = subsets[int(rng.integers(0, len(subsets)))]
        nw = events_of(kinds)
        out.append((kinds, tuple(int(x) for x in rng.integers(0, nw + 1, size=int(rng.integers(2, 4))))))
    return out


for _t in ('quick', 'thorough'):
    N[_t] = len(scenarios(_t, 0))


def setup(ctx):
    import cv2
    from pero_ocr.core.layout import PageLayout
    ctx.PF = pipeline.load_parse_folder(ctx.repo)
    ctx.root = os.path.join(ctx.tmpdir, 'batch')
    pipeline.make_batch(ctx.root, IDS, seed=17, n_lines=2, foreign_image_names=('b.v2', 'f'))
    ctx.scen = scenarios(ctx.tier, ctx.seed)
    ctx.events, ctx.proc = [], []
    ctx.state = {'crash_at': None, 'n': 0, 'real': False}
    ctx.refs = {}
    install_recorders(ctx, PageLayout, cv2)


def install_recorders(ctx, PageLayout, cv2, real_exit=False):
    state, events, proc = ctx.state, ctx.events, ctx.proc

    def wrap(obj, name, kind, pathidx):
        orig = getattr(obj, name)

        def w(*a, **k):
            # a crash point: the kill happens INSTEAD of passing it.  Points are numbered when they are passed, so that a point inside a write call
            # (the assembly of the document text) has its own position after the call's entry.
            if state['crash_at'] is not None and state['n'] == state['crash_at']:
                if state['real']:
                    os._exit(137)
                raise Kill()
            state['n'] += 1
            events.append((kind, a[pathidx] if pathidx is not None else None))
            return orig(*a, **k)
        setattr(obj, name, w)
    # directory creations are crash-able events too (a kill may fall between a write and the creation of the next output folder)
    orig_makedirs, orig_mkdir = os.makedirs, os.mkdir
    out_marker = os.sep + 'vf_C17_'

    def mk(orig):
        def w(path, *a, **k):
            if out_marker in str(path) and not str(path).startswith(getattr(ctx, 'root', '\0')):
                if state['crash_at'] is not None and state['n'] == state['crash_at']:
                    if state['real']:
                        os._exit(137)
                    raise Kill()
                state['n'] += 1
                events.append(('mkdir', path))
                return orig(path, *a, **k)
            return orig(path, *a, **k)
        return w
    os.makedirs = mk(orig_makedirs)
    wrap(PageLayout, 'to_pagexml', 'xml', 1)
    wrap(PageLayout, 'save_logits', 'logits', 1)
    wrap(PageLayout, 'to_altoxml', 'alto', 1)
    wrap(cv2, 'imwrite', 'img', 0)
    wrap(PageLayout, 'to_pagexml_string', 'assemble-xml', None)
    wrap(PageLayout, 'to_altoxml_string', 'assemble-alto', None)
    wrap(ctx.PF.LMDB_writer, '__call__', 'lmdb', None)
    oc = ctx.PF.Computator.__call__

    def cc(self, image_file_name, file_id, index, ids_count):
        proc.append(file_id)
        return oc(self, image_file_name, file_id, index, ids_count)
    ctx.PF.Computator.__call__ = cc


def run(ctx, out, kinds, crash_at=None, via_config=False):
    ctx.state['crash_at'], ctx.state['n'] = crash_at, 0
    del ctx.events[:]
    del ctx.proc[:]
    res = pipeline.run_main(ctx.PF, pipeline.argv_for(ctx.root, out, kinds, via_config=via_config), crash_exc=Kill)
    return res, len(ctx.events), list(ctx.proc)


def files_of(pid, ref):
    """expected outputs of a page, from the reference tree"""
    out = set()
    for k in ref:
        base = os.path.basename(k)
        if base.rsplit('.', 1)[0] == pid or base.startswith(pid + '-r0-'):
            out.add(k)
    return out


def reference(ctx, kinds, mon):
    key = tuple(kinds)
    if key not in ctx.refs:
        out = os.path.join(ctx.tmpdir, 'ref_' + '_'.join(kinds))
        res, nw, pr = run(ctx, out, kinds)
        ref = pipeline.snapshot(out)
        ctx.refs[key] = (out, ref, nw, res, pr)
        if res != 'ok' or nw != events_of(kinds) or sorted(pr) != sorted(IDS) or any(not files_of(p, ref) for p in IDS):
            mon.violation('harness:exception', {'note': 'uninterrupted reference run did not behave as planned', 'status': res, 'events': nw, 'expected_events': events_of(kinds), 'processed': pr})
    return ctx.refs[key]


def gen(rng, i, ctx):
    kinds, seq = ctx.scen[i]
    return {'kinds': list(kinds), 'crashes': list(seq)}


def describe(case):
    return case


def check(case, mon, ctx):
    kinds, seq = case['kinds'], case['crashes']
    ref_out, ref, nw, _, _ = reference(ctx, kinds, mon)
    mon.count('scenarios')
    if 'lmdb' in kinds:
        mon.count('lmdb_scenarios')
    if len(seq) == 1:
        mon.count('single_crash_positions_enumerated')
    w = {'outputs': kinds, 'crash_positions': seq, 'events_in_a_full_first_run (folder creations + writes)': nw}

    def complete_pages(out):
        before = pipeline.snapshot(out)
        return {pid for pid in IDS if files_of(pid, ref) <= set(before)}, before

    def known(mech_clause):
        return KNOWN_CROPS if kinds == ['line'] and mech_clause == 'complete-pages-not-processed-again' else None
    if not seq:
        # nothing-to-do: a second run over the complete reference tree
        complete, _ = complete_pages(ref_out)
        res, n, pr = run(ctx, ref_out, kinds)
        mon.count('nothing_to_do_runs')
        if res != 'ok':
            mon.violation('nothing-left-to-do-exits-cleanly', dict(w, status=res))
        if set(pr) & complete:
            mon.violation('complete-pages-not-processed-again', dict(w, reprocessed=sorted(set(pr) & complete), run='second run over a complete tree'), mechanism=known('complete-pages-not-processed-again'))
        if pipeline.snapshot(ref_out) != ref:
            mon.violation('outputs-equal-uninterrupted-run', dict(w, note='a run with nothing to do changed the outputs'))
        # the same with the filter for pages without input XML switched on
        if not pr:
            ctx.state['crash_at'], ctx.state['n'] = None, 0
            del ctx.events[:]; del ctx.proc[:]
            res3 = pipeline.run_main(ctx.PF, pipeline.argv_for(ctx.root, ref_out, kinds, extra=['--skipp-missing-xml']), crash_exc=Kill)
            mon.count('nothing_to_do_runs')
            if res3 != 'ok':
                mon.violation('nothing-left-to-do-exits-cleanly', dict(w, status=res3, options='--skipp-missing-xml'))
        # the same with worker processes requested (only when the run above really had nothing to do: the in-process harness cannot
        # ship its recorders to worker processes)
        if pr:
            return
        ctx.state['crash_at'], ctx.state['n'] = None, 0
        del ctx.events[:]; del ctx.proc[:]
        res2 = pipeline.run_main(ctx.PF, pipeline.argv_for(ctx.root, ref_out, kinds, extra=['--process-count', '2']), crash_exc=Kill)
        mon.count('nothing_to_do_runs')
        if res2 != 'ok':
            mon.violation('nothing-left-to-do-exits-cleanly', dict(w, status=res2, options='--process-count 2'))
        if pipeline.snapshot(ref_out) != ref:
            mon.violation('outputs-equal-uninterrupted-run', dict(w, note='a run with nothing to do (--process-count 2) changed the outputs'))
        return
    # a quarter of the scenarios give the folders in the configuration file; every other scenario writes into a folder whose name contains glob metacharacters
    via = (len(kinds) + sum(seq)) % 4 == 0
    out = os.path.join(ctx.tmpdir, 'o' if (len(kinds) + sum(seq)) % 2 else 'o [vol 1]')
    shutil.rmtree(out, ignore_errors=True)
    if via:
        mon.count('scenarios_with_folders_from_the_configuration_file')
    if out.endswith(']'):
        mon.count('scenarios_with_glob_characters_in_the_output_path')
    inside = False
    for p in seq:
        complete, before = complete_pages(out)
        res, n, pr = run(ctx, out, kinds, crash_at=p, via_config=via)
        mon.count('crash_runs')
        mon.count('page_events', len(pr))
        if res == 'crash' and 0 < len(before) + n < len(ref):
            inside = True
        if res not in ('crash', 'ok'):
            mon.violation('resumed-run-exits-cleanly', dict(w, status=res, run='crashing run %r' % p))
        if set(pr) & complete:
            mon.violation('complete-pages-not-processed-again', dict(w, reprocessed=sorted(set(pr) & complete), complete_before_run=sorted(complete)), mechanism=known('complete-pages-not-processed-again'))
    if inside:
        mon.count('crashes_inside_batch')
        mon.mark_nontrivial()
    complete, before = complete_pages(out)
    res, n, pr = run(ctx, out, kinds, via_config=via)
    mon.count('resume_runs')
    mon.count('page_events', len(pr))
    if set(pr) & complete:
        mon.violation('complete-pages-not-processed-again', dict(w, reprocessed=sorted(set(pr) & complete), complete_before_run=sorted(complete), run='final resume'), mechanism=known('complete-pages-not-processed-again'))
    if res != 'ok':
        mon.violation('resumed-run-exits-cleanly' if complete != set(IDS) else 'nothing-left-to-do-exits-cleanly', dict(w, status=res))
    snap = pipeline.snapshot(out)
    mon.count('final_trees_compared')
    missing = sorted(set(ref) - set(snap))
    extra = sorted(set(snap) - set(ref))
    diff = sorted(k for k in snap if k in ref and snap[k] != ref[k])
    if missing:
        mon.violation('every-requested-output-present', dict(w, missing=missing[:6], n_missing=len(missing), pages_skipped_by_the_resume=sorted(set(IDS) - set(pr))))
    if diff or extra:
        mon.violation('outputs-equal-uninterrupted-run', dict(w, different=diff[:6], unexpected=extra[:6]))


# --- real-process validation of the simulated crash ------------------------------------------------------------------
def _real_main(root, out, kinds, crash_at, repo):
    import cv2
    from pero_ocr.core.layout import PageLayout

    class C:
        pass
    c = C()
    c.PF = pipeline.load_parse_folder(repo)
    c.events, c.proc = [], []
    c.state = {'crash_at': crash_at, 'n': 0, 'real': True}
    install_recorders(c, PageLayout, cv2)
    pipeline.run_main(c.PF, pipeline.argv_for(root, out, kinds))


def decoder_batch(mon, ctx):
    """the same batch with a decoder stage configured: crash, resume, and then runs that find nothing left to do"""
    root = os.path.join(ctx.tmpdir, 'batch_dec')
    pipeline.make_batch(root, IDS[:4], seed=18, n_lines=2, decoder=dict(carry=False, threshold=None, beam=2, lm_scale=1.0))
    kinds = ['xml', 'logits']
    saved_root = ctx.root
    ctx.root = root
    try:
        ref_out = os.path.join(ctx.tmpdir, 'dec_ref')
        res, nw, pr = run(ctx, ref_out, kinds)
        ref = pipeline.snapshot(ref_out)
        mon.cur_desc = {'leg': 'batch with a decoder stage', 'outputs': kinds}
        if res != 'ok' or sorted(pr) != sorted(IDS[:4]):
            mon.violation('harness:exception', {'note': 'decoder batch: uninterrupted run did not behave as planned', 'status': res, 'processed': pr})
            return
        out = os.path.join(ctx.tmpdir, 'dec_o')
        for crash_at in (nw // 2, None, None):
            res, n, pr = run(ctx, out, kinds, crash_at=crash_at)
            mon.count('decoder_batch_runs')
            mon.count('extra_evaluations')
            if crash_at is None and res != 'ok':
                mon.violation('nothing-left-to-do-exits-cleanly' if not pr else 'resumed-run-exits-cleanly', {'configuration': 'decoder stage configured', 'outputs': kinds, 'status': res, 'pages_processed_in_this_run': pr})
        if pipeline.snapshot(out) != ref:
            mon.violation('outputs-equal-uninterrupted-run', {'configuration': 'decoder stage configured', 'outputs': kinds})
    finally:
        ctx.root = saved_root


def xml_only_batch(mon, ctx):
    """a batch that reads PAGE XML + logits and no images (ALTO / PAGE XML produced from stored recognition results): crash, resume, nothing-to-do"""
    ref_out, ref, _, res0, _ = reference(ctx, ['xml', 'logits'], mon)
    if res0 != 'ok':
        return
    cfgp = os.path.join(ctx.tmpdir, 'xmlonly.ini')
    with open(cfgp, 'w') as f:
        f.write('[PAGE_PARSER]\nRUN_LAYOUT_PARSER = no\nRUN_LINE_CROPPER = no\nRUN_OCR = no\nRUN_DECODER = no\n')

    def go(out, crash_at):
        ctx.state['crash_at'], ctx.state['n'] = crash_at, 0
        del ctx.events[:]; del ctx.proc[:]
        argv = ['parse_folder.py', '-c', cfgp, '-x', ref_out + '/xml', '--input-logit-path', ref_out + '/logits', '--device', 'cpu', '-s',
                '--output-alto-path', out + '/alto', '--output-xml-path', out + '/xml']
        return pipeline.run_main(ctx.PF, argv, crash_exc=Kill), list(ctx.proc)
    full = os.path.join(ctx.tmpdir, 'xo_full')
    r, pr = go(full, None)
    want = pipeline.snapshot(full)
    mon.cur_desc = {'leg': 'batch without images (PAGE XML + logits in, PAGE XML + ALTO out)'}
    if r != 'ok' or len(want) != 2 * len(IDS):
        mon.violation('harness:exception', {'note': 'XML-only reference run did not behave as planned', 'status': r, 'files': len(want)})
        return
    for crash_at in (4, 11, 19):
        out = os.path.join(ctx.tmpdir, 'xo_%d' % crash_at)
        r1, _ = go(out, crash_at)
        r2, pr2 = go(out, None)
        r3, pr3 = go(out, None)
        mon.count('xml_only_scenarios')
        mon.count('extra_evaluations')
        got = pipeline.snapshot(out)
        if r2 != 'ok' or r3 != 'ok':
            mon.violation('resumed-run-exits-cleanly' if r2 != 'ok' else 'nothing-left-to-do-exits-cleanly', {'configuration': 'no image input', 'crash_position': crash_at, 'statuses': [r1, r2, r3]})
        elif got != want:
            mon.violation('every-requested-output-present', {'configuration': 'no image input', 'crash_position': crash_at, 'missing': sorted(set(want) - set(got))[:6]})
        elif pr3:
            mon.violation('complete-pages-not-processed-again', {'configuration': 'no image input', 'reprocessed': pr3})


def widened_request(mon, ctx):
    """history over runs that request different outputs: a run asking for PAGE XML + ALTO is killed (or completes), the next -s run also asks for the logits:
    every output requested by the LAST run ends up present for every page"""
    for k1, k2 in ((['xml', 'alto'], ['xml', 'logits', 'alto']), (['xml'], ['xml', 'logits', 'line'])):       # (round 8: the second pair - line crops requested only by the later run)
        ref_out, ref, nw, res0, _ = reference(ctx, k2, mon)
        for crash_at in (None, 9, 22):
            out = os.path.join(ctx.tmpdir, 'wr_%s_%s' % (len(k1), crash_at))
            r1 = run(ctx, out, k1, crash_at=crash_at)[0]
            r2, _, pr2 = run(ctx, out, k2)
            mon.count('widened_request_scenarios')
            mon.count('extra_evaluations')
            mon.cur_desc = {'leg': 'first run %s (crash at %s), second run %s' % ('+'.join(k1), crash_at, '+'.join(k2))}
            got = pipeline.snapshot(out)
            missing = sorted(set(ref) - set(got))
            if r2 != 'ok':
                mon.violation('resumed-run-exits-cleanly', {'status': r2, 'first_run': r1})
            elif missing:
                mon.violation('every-requested-output-present', {'first_run_outputs': k1, 'second_run_outputs': k2, 'crash_position_in_first_run': crash_at, 'missing': missing[:6], 'n_missing': len(missing)})


def second_delivery(mon, ctx):
    """(round 7) a second batch delivered into output folders that already hold the finished results of an earlier batch; the second batch has two pages whose
    ids differ only in letter case and a page without any text line: kill, resume, and a further run that must find nothing left to do"""
    from pero_ocr.core.layout import PageLayout
    kinds = ['xml', 'logits', 'alto']
    root_a, root_b = os.path.join(ctx.tmpdir, 'delivery_a'), os.path.join(ctx.tmpdir, 'delivery_b')
    ids_a, ids_b = ('old1', 'old2', 'old3', 'old4', 'old5'), ('img_1', 'IMG_1', 'n2', 'blank')
    pipeline.make_batch(root_a, ids_a, seed=5, n_lines=2)
    pipeline.make_batch(root_b, ids_b, seed=6, n_lines=2)
    pl = PageLayout(file=root_b + '/xml/blank.xml')
    for r in pl.regions:
        r.lines = []
    pl.to_pagexml(root_b + '/xml/blank.xml')

    def go(root, out, crash_at):
        ctx.state['crash_at'], ctx.state['n'] = crash_at, 0
        del ctx.events[:]; del ctx.proc[:]
        return pipeline.run_main(ctx.PF, pipeline.argv_for(root, out, kinds), crash_exc=Kill), len(ctx.events), list(ctx.proc)
    base = os.path.join(ctx.tmpdir, 'vf_C17_delivery_base')
    r0, _, _ = go(root_a, base, None)
    first = pipeline.snapshot(base)
    full = os.path.join(ctx.tmpdir, 'vf_C17_delivery_full')
    shutil.copytree(base, full)
    r1, n_events, pr1 = go(root_b, full, None)
    want = pipeline.snapshot(full)
    mon.cur_desc = {'leg': 'second delivery into the same output folders', 'earlier_pages': ids_a, 'pages': ids_b}
    ext = {'xml': 'xml', 'logits': 'logits', 'alto': 'xml'}
    expected_files = {'%s/%s.%s' % (k, pid, ext[k]) for k in kinds for pid in ids_a + ids_b}
    if r0 != 'ok' or not {f for f in expected_files if f.split('/')[1].startswith('old')} <= set(first):
        mon.violation('harness:exception', {'note': 'the earlier delivery of the second-delivery leg did not behave as planned', 'status': r0, 'files': len(first)})
        return
    if r1 != 'ok':
        mon.violation('resumed-run-exits-cleanly', {'configuration': 'uninterrupted run of a second delivery into folders holding an earlier one', 'status': r1})
        return
    if expected_files - set(want):
        mon.violation('every-requested-output-present', {'configuration': 'uninterrupted run of a second delivery into folders holding %d finished pages of an earlier one' % len(ids_a), 'pages': ids_b,
                      'missing': sorted(expected_files - set(want))[:6], 'pages_processed': pr1})
        return
    positions = sorted(set(range(0, n_events + 1, 2 if ctx.tier == 'quick' else 1)) | {n_events})
    for crash_at in positions:
        out = os.path.join(ctx.tmpdir, 'vf_C17_delivery_%d' % crash_at)
        shutil.copytree(base, out)
        ra, _, _ = go(root_b, out, crash_at)
        before = pipeline.snapshot(out)
        complete = {pid for pid in ids_b if all(('%s/%s.%s' % (k, pid, {'xml': 'xml', 'logits': 'logits', 'alto': 'xml'}[k])) in before for k in kinds)}
        rb, _, prb = go(root_b, out, None)
        rc, _, prc = go(root_b, out, None)
        mon.count('second_delivery_scenarios')
        mon.count('extra_evaluations')
        got = pipeline.snapshot(out)
        w = {'configuration': 'second delivery into folders holding %d finished pages of an earlier one' % len(ids_a), 'pages': ids_b, 'crash_position': crash_at, 'statuses': [ra, rb, rc]}
        if rb != 'ok':
            mon.violation('resumed-run-exits-cleanly', w)
        elif rc != 'ok':
            mon.violation('nothing-left-to-do-exits-cleanly', w)
        elif sorted(set(want) - set(got)):
            mon.violation('every-requested-output-present', dict(w, missing=sorted(set(want) - set(got))[:6], pages_processed_by_the_resume=prb))
        elif any(got[k] != want[k] for k in want):
            mon.violation('outputs-equal-uninterrupted-run', dict(w, different=[k for k in want if got[k] != want[k]][:6]))
        elif set(prb) & complete:
            mon.violation('complete-pages-not-processed-again', dict(w, reprocessed=sorted(set(prb) & complete), complete_before_the_resume=sorted(complete)))
        elif prc:
            mon.violation('complete-pages-not-processed-again', dict(w, reprocessed=prc, run='third run, nothing left to do'))
        shutil.rmtree(out, ignore_errors=True)


def parallel_resume(mon, ctx):
    """(round 8) a resume with worker processes when fewer pages are left than workers (a model-free batch: line cropping only, as real processes): the outputs of
    one / two / three pages are missing from an otherwise complete tree"""
    import sys
    kinds = ['xml', 'line', 'render']
    root = os.path.join(ctx.tmpdir, 'par_batch')
    ids = ['q%d' % j for j in range(6)]
    pipeline.make_batch(root, ids, seed=ctx.seed * 10 + 3, n_lines=2, ocr=False)
    script = os.path.join(ctx.repo, 'user_scripts', 'parse_folder.py')

    def go(out, workers):
        argv = pipeline.argv_for(root, out, kinds, skip=True, extra=['--process-count', str(workers)])
        argv[0] = script
        try:
            return subprocess.run([sys.executable] + argv, stdout=subprocess.DEVNULL, stderr=subprocess.DEVNULL, timeout=600).returncode
        except subprocess.TimeoutExpired:
            return 'timeout'
    ref_out = os.path.join(ctx.tmpdir, 'par_ref')
    rc = go(ref_out, 1)
    ref = pipeline.snapshot(ref_out)
    if rc != 0 or len(ref) < len(ids) * 4:
        mon.inconclusive_because('parallel-resume leg: the sequential reference run did not produce the expected files (rc %r, %d files)' % (rc, len(ref)))
        return
    for missing_pages, workers in ((('q3',), 4), (('q0', 'q4'), 8), (('q1', 'q2', 'q5'), 2)):
        out = os.path.join(ctx.tmpdir, 'par_%d' % workers)
        shutil.copytree(ref_out, out)
        for k in list(ref):
            base = os.path.basename(k)
            if any(base.rsplit('.', 1)[0] == pid or base.startswith(pid + '-') for pid in missing_pages):
                os.remove(os.path.join(out, k))
        rc = go(out, workers)
        mon.count('parallel_resume_scenarios')
        mon.count('extra_evaluations')
        mon.cur_desc = {'leg': 'resume with worker processes', 'pages_left': missing_pages, 'process_count': workers}
        got = pipeline.snapshot(out)
        if rc == 'timeout':
            mon.inconclusive_because('parallel-resume leg: parse_folder subprocess did not finish within 600 s')
        elif rc != 0:
            mon.violation('resumed-run-exits-cleanly', {'returncode': rc, 'pages_left': missing_pages, 'process_count': workers})
        elif sorted(set(ref) - set(got)):
            mon.violation('every-requested-output-present', {'pages_left': missing_pages, 'process_count': workers, 'missing': sorted(set(ref) - set(got))[:6]})
        elif any(got[k] != ref[k] for k in ref):
            mon.violation('outputs-equal-uninterrupted-run', {'pages_left': missing_pages, 'process_count': workers, 'different': [k for k in ref if got[k] != ref[k]][:6]})
        shutil.rmtree(out, ignore_errors=True)


def extra(mon, ctx):
    if ctx.shard == 1 % ctx.nshards:
        decoder_batch(mon, ctx)
    if ctx.shard == 5 % ctx.nshards:
        parallel_resume(mon, ctx)
    if ctx.shard == 4 % ctx.nshards:
        second_delivery(mon, ctx)
    if ctx.shard == 2 % ctx.nshards:
        xml_only_batch(mon, ctx)
    if ctx.shard == 3 % ctx.nshards:
        widened_request(mon, ctx)
    if ctx.shard != 0:
        return
    kinds = ALL
    nw = events_of(kinds)
    positions = [0, 3, 9, nw] if ctx.tier == 'quick' else list(range(0, nw + 1, 2))
    procs = []
    for p in positions:
        out = os.path.join(ctx.tmpdir, 'real%d' % p)
        cmd = [sys.executable, '-c', 'import sys; from vf.props import c17; c17._real_main(%r, %r, %r, %d, %r)' % (ctx.root, out, kinds, p, ctx.repo)]
        procs.append((p, out, subprocess.Popen(cmd, stdout=subprocess.DEVNULL, stderr=subprocess.DEVNULL)))
    for p, out, pr in procs:
        try:
            pr.wait(timeout=600)
        except subprocess.TimeoutExpired:
            pr.kill()
            mon.inconclusive_because('real-process kill run did not finish in 600 s')
            continue
        sim = os.path.join(ctx.tmpdir, 'sim')
        shutil.rmtree(sim, ignore_errors=True)
        res, n, _ = run(ctx, sim, kinds, crash_at=p)
        a, b = pipeline.snapshot(out), pipeline.snapshot(sim)
        mon.count('real_kills_compared')
        mon.count('extra_evaluations')
        mon.cur_desc = {'leg': 'real os._exit(137) kill vs simulated crash', 'position': p}
        expect_rc = 137 if p < nw else 0
        if pr.returncode != expect_rc or a != b:
            mon.violation('harness:exception', {'note': 'simulated crash and real process kill leave different trees', 'position': p, 'returncode': pr.returncode,
                          'only_real': sorted(set(a) - set(b))[:5], 'only_simulated': sorted(set(b) - set(a))[:5], 'different': [k for k in a if k in b and a[k] != b[k]][:5]})
