"""C04 Greedy transcription is the CTC collapse of the arg-max path."""
import numpy as np

ID = 'C04'
LEVEL = 'exploration'
TECHNIQUE = 'runtime monitoring: reference collapse oracle + three-implementation differential on generated score tensors and on the real engine run_ocr'
RULE = ('score tensors N(1-8) x C(2-40) x T(1-60) built from a chosen arg-max path (classes: random, leading/trailing blanks, all blank, '
        'repeats split by blank, first frame non-blank, last class next to blank, identical rows, different rows, single frame) with arg-max '
        'margin >= 1e-2; plus batches pushed through the real PytorchEngineLineOCR.run_ocr with a stub net. '
        'non-trivial = some line has a non-empty transcription with a merged repeat or a dropped blank; distinct = hash of the arg-max paths Alphabets of 256-1000 classes; near ties (one ulp apart, no conversion between matrix and decoders) and raw scores around -1000 / +800; the previous run_ocr result re-checked after the next call. Alphabets up to 70000 classes; an engine whose network emits nearly equal class scores.')
RULE += ' Round 6: Lines of 4094-9000 frames; a symbol ending in U+0000; the separator re-assigned on a live decoder; raw scores in the thousands.'
RULE += ' Round 9: One engine call over a batch of more than 2^25 scores.'
RULE += ' Round 7: Single-precision scores beyond 2^24 with the batch maximum in a first frame; character tables as strings and arrays; Greek small alphabets.'
ASSUMPTIONS = ['for exact arg-max ties (class exact_ties: quantised outputs) only the agreement of the engine decoder and the stand-alone decoder is required (the statement gives no tie rule for the reference collapse); frames of engine output with margin < 1e-4 are skipped as ambiguous elsewhere',
               'blank is the last class; 3-D tensors only (the 2-D branch of the engine decoder is not reachable from the repository)']
N = {'quick': 5000, 'thorough': 300000}
CLASSES = ['random', 'lead_trail_blank', 'all_blank', 'repeats_split', 'first_nonblank', 'last_class', 'identical_rows', 'different_rows', 'single_frame', 'engine', 'exact_ties', 'large_alphabet', 'near_ties', 'engine_near_ties', 'long_lines', 'huge_scores']
REQUIRED = ['batches_of_more_than_2^25_scores', 'filtration_lines_with_a_string_or_array_table', 'tensors_with_scores_in_the_thousands', 'lines_over_4096_frames', 'separator_reassigned_on_a_live_decoder', 'near_tie_engine_lines', 'alphabets_over_256_classes', 'near_tie_lines', 'earlier_run_ocr_results_rechecked', 'separator_lines', 'run_ocr_logits_compared', 'tie_lines', 'engine_lines', 'standalone_lines', 'filtration_lines', 'run_ocr_lines']


def setup(ctx):
    import torch
    from pero_ocr.ocr_engine import pytorch_ocr_engine as poe
    from pero_ocr.decoding import decoders
    from pero_ocr import char_confidences
    from vf import stubs
    ctx.torch, ctx.poe, ctx.decoders, ctx.cc = torch, poe, decoders, char_confidences
    ctx.chars = [chr(0x61 + i) for i in range(7)] + [' ']
    ctx.eng, ctx.net = stubs.load_ocr_engine(ctx.tmpdir + '/eng', ctx.chars, H=16, seed=ctx.seed, blank_bias=1.5, wscale=1.2)
    # a network whose class scores are small and nearly equal: every class sees the same feature, scaled by (1 + c * 1e-6), so the best two scores of a
    # frame differ by about 1e-9 at a magnitude of 1e-3 - distinct float32 numbers whose order any further arithmetic (a soft-max, a cast) may destroy
    import json
    import os

    class NearTieNet(torch.nn.Module):
        def __init__(self, C):
            super().__init__()
            g = torch.Generator().manual_seed(11)
            self.conv = torch.nn.Conv2d(3, 1, kernel_size=(16, 4), stride=(1, 4), bias=False)
            with torch.no_grad():
                self.conv.weight.copy_(torch.randn(self.conv.weight.shape, generator=g) * 1e-4)
            self.gain = torch.nn.Parameter(1.0 + torch.arange(C, dtype=torch.float32) * 1e-6, requires_grad=False)

        def forward(self, x):
            y = self.conv(x)[:, :, 0, :]                      # N, 1, T
            return y * self.gain[None, :, None]               # N, C, T
    d = ctx.tmpdir + '/eng_nt'
    os.makedirs(d, exist_ok=True)
    ctx.net_nt = NearTieNet(len(ctx.chars) + 1).eval()
    torch.jit.save(torch.jit.script(ctx.net_nt), d + '/ocr.pt.cpu')
    json.dump({'line_px_height': 16, 'line_vertical_scale': 1.0, 'checkpoint': 'ocr.pt', 'characters': list(ctx.chars), 'net_name': 'near-tie stub'}, open(d + '/ocr.json', 'w'))
    ctx.eng_nt = poe.PytorchEngineLineOCR(d + '/ocr.json', torch.device('cpu'))


def collapse(path, blank, chars):
    out, prev = [], None
    for a in path:
        if a != prev and a != blank:
            out.append(chars[a])
        prev = a
    return ''.join(out)


def gen(rng, i, ctx):
    cls = CLASSES[i % len(CLASSES)]
    if cls in ('engine', 'engine_near_ties'):
        n = int(rng.integers(1, 6))
        w = int(rng.integers(1, 40)) * 4
        data = rng.integers(0, 256, size=(n, 16, w, 3)).astype(np.uint8)
        data[rng.random(size=(n, 1, w, 1)).repeat(16, 1).repeat(3, 3) < 0.4] = 0
        return {'cls': cls, 'data': data}
    N_, C, T = int(rng.integers(1, 9)), int(rng.integers(2, 41)), int(rng.integers(1, 61))
    if cls == 'large_alphabet':
        C = int(rng.choice([256, 257, 258, 300, 512, 1000, 33000, 70000]))          # real alphabets (CJK, mixed scripts) have hundreds to tens of thousands of classes
        if C > 1000:
            N_, T = int(rng.integers(1, 3)), int(rng.integers(1, 9))
    if cls == 'long_lines':
        # lines of several thousand frames (long lines at a fine frame rate), with runs of equal symbols everywhere - also across any internal block boundary
        C = int(rng.integers(2, 6))
        N_ = int(rng.integers(1, 3))
        T = int(rng.choice([4094, 4096, 4097, 4100, 8192, 8195, 9000])) if (i // len(CLASSES)) % 3 == 0 else int(rng.integers(100, 600))
    if cls == 'near_ties':
        # the two best symbols of a frame differ by one or a few units in the last place; or all scores lie where exp() under/overflows
        C = int(rng.integers(3, 8))
        T = int(rng.integers(2, 20))
        mode = str(rng.choice(['ulp_normalised', 'far_negative_raw', 'far_positive_raw', 'ulp_normalised32']))
        rows = []
        for t in range(T):
            a, b = [int(x) for x in rng.choice(C, size=2, replace=False)]
            if mode.startswith('ulp'):
                dt = np.float32 if mode.endswith('32') else np.float64
                rest = rng.random(C) * 1e-3
                rest[[a, b]] = 0
                half = dt((1.0 - rest.sum()) / 2)
                lo = np.log(half.astype(np.float64)) if dt is np.float64 else np.log(half)
                r = np.log(np.maximum(rest, 1e-300)).astype(dt)
                r[a] = dt(lo)
                r[b] = np.nextafter(dt(lo), dt(0), dtype=dt) if rng.random() < 0.7 else dt(lo)
                for _ in range(int(rng.integers(0, 3))):
                    r[b] = np.nextafter(r[b], dt(0), dtype=dt)
            else:
                base = -1000.0 if mode == 'far_negative_raw' else 800.0
                r = base + rng.normal(size=C) * 20
            rows.append(np.asarray(r, dtype=np.float64 if not mode.endswith('32') else np.float32))
        return {'cls': cls, 'matrix': np.stack(rows), 'mode': mode, 'C': C}
    if cls == 'exact_ties':
        # quantised / saturated outputs: exact ties between the best symbols of a frame (also between blank and a character)
        C = int(rng.integers(2, 6))
        sc = rng.integers(0, 3, size=(N_, C, T)).astype(np.float32) * float(rng.choice([1.0, 0.5, 7.0]))
        return {'cls': cls, 'scores': sc, 'C': C, 'am': None}
    if cls == 'single_frame':
        T = 1
    blank = C - 1
    am = rng.integers(0, C, size=(N_, T))
    if cls == 'lead_trail_blank':
        k = int(rng.integers(1, max(2, T // 2 + 1)))
        am[:, :k] = blank
        am[:, T - k:] = blank
    elif cls == 'all_blank':
        am[int(rng.integers(0, N_))] = blank
        am[rng.random((N_, T)) < 0.5] = blank
    elif cls == 'repeats_split':
        sym = rng.integers(0, max(1, C - 1), size=(N_, 1))
        am = np.where(rng.random((N_, T)) < 0.5, sym, blank)
    elif cls == 'first_nonblank' and C > 1:
        am[:, 0] = rng.integers(0, max(1, C - 1), size=N_)
        if T > 1:
            am[:, 1] = am[:, 0]
    elif cls == 'last_class' and C > 2:
        am = np.where(rng.random((N_, T)) < 0.5, C - 2, blank)
    elif cls == 'identical_rows':
        am[:] = am[0]
    elif cls == 'different_rows' and N_ > 1:
        am[0] = blank
        am[-1] = rng.integers(0, max(1, C - 1))
    else:
        # runs, so that repeats actually occur
        rep = int(rng.integers(1, 4))
        am = np.repeat(am[:, :max(1, (T + rep - 1) // rep)], rep, axis=1)[:, :T]
    scale = float(rng.choice([0.1, 1.0, 5.0]) if cls != 'huge_scores' else rng.choice([400.0, 3000.0]))
    if cls == 'huge_scores' and (i // len(CLASSES)) % 3 == 2:
        scale = float(rng.choice([3e7, 2e9, 1e12]))                  # beyond 2^24: adding 1 to such a single-precision score changes nothing
    sc = rng.normal(size=(N_, C, T)).astype(np.float32) * scale
    if cls == 'huge_scores':
        sc += float(rng.choice([0.0, 1500.0, -1500.0]))            # raw scores in the thousands (an exported net without its final normalisation)
        am[:, 0] = rng.integers(0, max(1, C - 1), size=N_)           # and a line that starts with a character in its very first frame
    mx = sc.max(axis=1)
    top = np.where(np.abs(mx) < 1e6, mx + 0.01 + rng.random((N_, T)).astype(np.float32), mx + (1 + rng.random((N_, T)).astype(np.float32)) * np.abs(mx) * np.float32(1e-6)).astype(np.float32)
    np.put_along_axis(sc, am[:, None, :], top[:, None, :], axis=1)
    for _ in range(4):
        # (single precision at large magnitudes: make sure the chosen symbol really is the strict maximum of its frame)
        cur = np.take_along_axis(sc, am[:, None, :], axis=1)[:, 0, :]
        rest = sc.copy()
        np.put_along_axis(rest, am[:, None, :], -np.inf, axis=1)
        bad = cur <= rest.max(axis=1) if C > 1 else np.zeros_like(cur, dtype=bool)
        if not bad.any():
            break
        fixed = np.where(bad, np.nextafter(np.nextafter(rest.max(axis=1), np.float32(np.inf)), np.float32(np.inf)), cur).astype(np.float32)
        np.put_along_axis(sc, am[:, None, :], fixed[:, None, :], axis=1)
    if scale >= 1e6:
        # the largest score of the whole batch sits in the first frame of a line, on a character
        n0 = int(rng.integers(0, N_))
        sc[n0, am[n0, 0], 0] = sc.max() * np.float32(1.001) if sc.max() > 0 else np.float32(scale)
    return {'cls': cls, 'am': am, 'scores': sc, 'C': C}


def describe(case):
    if case['cls'] == 'engine':
        return {'cls': 'engine', 'data': case['data']}
    if case['cls'] == 'exact_ties':
        return {'cls': 'exact_ties', 'C': case['C'], 'scores': case['scores']}
    return {'cls': case['cls'], 'C': case['C'], 'argmax_paths': case['am']}


def check_tensor(sc, chars_with_blank_engine, chars, mon, ctx, expected_paths=None, site='tensor'):
    torch = ctx.torch
    N_, C, T = sc.shape
    am = sc.argmax(axis=1)
    if expected_paths is not None:
        assert (am == expected_paths).all()
    exp = [collapse(am[n], C - 1, chars) for n in range(N_)]
    srt = np.sort(sc, axis=1)
    margin = (srt[:, -1, :] - srt[:, -2, :]) if C > 1 else np.ones((N_, T))
    got = ctx.poe.greedy_decode_ctc(torch.from_numpy(sc.copy()), chars_with_blank_engine)
    mon.observe('engine texts', got)
    gd = ctx.decoders.GreedyDecoder(chars + [ctx.decoders.BLANK_SYMBOL])
    nontriv = False
    for n in range(N_):
        if margin[n].min() < 1e-4:
            mon.skip_ambiguous('argmax-tie')
            continue
        mon.count('engine_lines')
        if got[n] != exp[n]:
            mon.violation('engine-greedy', {'site': site, 'line': n, 'got': got[n], 'expected': exp[n], 'path': am[n]})
        lp = torch.log_softmax(torch.from_numpy(sc[n].T.astype(np.float64)), dim=1).numpy()
        g = gd(lp).best_hyp()
        mon.count('standalone_lines')
        if g != exp[n]:
            mon.violation('standalone-greedy', {'site': site, 'line': n, 'got': g, 'expected': exp[n], 'path': am[n]})
        if g != got[n]:
            mon.violation('engine-vs-standalone', {'site': site, 'line': n, 'engine': got[n], 'standalone': g})
        f, _ = ctx.cc.greedy_filtration(np.exp(lp), chars + ['​'])
        mon.count('filtration_lines')
        if f != exp[n]:
            mon.violation('filtration-greedy', {'site': site, 'line': n, 'got': f, 'expected': exp[n], 'path': am[n]})
        if all(len(ch) == 1 for ch in chars) and n < 2:
            # the character table handed over as a plain string / as a numpy array (indexing creates a new object every time)
            for table in (''.join(chars) + '​', np.array(chars + ['​'])):
                f2, _ = ctx.cc.greedy_filtration(np.exp(lp), table)
                mon.count('filtration_lines_with_a_string_or_array_table')
                if f2 != exp[n]:
                    mon.violation('filtration-greedy', {'site': site, 'table': type(table).__name__, 'line': n, 'got': f2, 'expected': exp[n], 'path': am[n]})
        if exp[n] and len(exp[n]) < sum(1 for a in am[n] if a != C - 1) or (exp[n] and (am[n] == C - 1).any()):
            nontriv = True
    return nontriv, am


def check(case, mon, ctx):
    if case['cls'] == 'engine_near_ties':
        # run_ocr of an engine whose network emits nearly equal scores: the text is the collapse of the arg-max path of the RETURNED logits
        # (float32 numbers compared as they are; only frames whose best two returned values are bit-equal are ambiguous)
        decoded, logits = ctx.eng_nt.run_ocr(case['data'])
        chars = list(ctx.eng_nt.characters[:-1])
        C = logits.shape[2]
        for n in range(logits.shape[0]):
            lg = logits[n]                                   # T, C
            srt = np.sort(lg, axis=1)
            if (srt[:, -1] == srt[:, -2]).any():
                mon.skip_ambiguous('exact-tie')
                continue
            mon.count('near_tie_engine_lines')
            exp = collapse(lg.argmax(axis=1), C - 1, chars)
            if decoded[n] != exp:
                mon.violation('run_ocr-greedy', {'site': 'network with nearly equal class scores', 'line': n, 'got': decoded[n], 'expected': exp,
                              'smallest_margin': float((srt[:, -1] - srt[:, -2]).min())})
        mon.mark_nontrivial({'near_tie_engine': case['data'].shape})
        return
    if case['cls'] == 'engine':
        eng = ctx.eng
        decoded, logits = eng.run_ocr(case['data'])   # logits: N, T, C
        with ctx.torch.no_grad():
            direct = ctx.net(ctx.torch.from_numpy(case['data']).float().permute(0, 3, 1, 2) / 255.0).permute(0, 2, 1).numpy()
        mon.count('run_ocr_logits_compared')
        if logits.shape != direct.shape or np.abs(logits - direct).max(initial=0) > 1e-5 * max(1.0, float(np.abs(direct).max(initial=0))):
            mon.violation('run_ocr-logits-are-the-network-output', {'max_abs_diff': float(np.abs(logits - direct).max(initial=0)) if logits.shape == direct.shape else None,
                          'shapes': [list(logits.shape), list(direct.shape)]})
        # history on the long-lived engine: what an earlier run_ocr call returned is still that batch's network output after this call
        prev = getattr(ctx, 'prev_run_ocr', None)
        if prev is not None:
            mon.count('earlier_run_ocr_results_rechecked')
            p_logits, p_direct, p_decoded, p_decoded_copy = prev
            if p_logits.shape != p_direct.shape or np.abs(p_logits - p_direct).max(initial=0) > 1e-5 * max(1.0, float(np.abs(p_direct).max(initial=0))) or p_decoded != p_decoded_copy:
                mon.violation('run_ocr-logits-are-the-network-output', {'note': 'the logits returned by an EARLIER run_ocr call changed when the engine processed the next batch',
                              'shapes': [list(p_logits.shape), list(p_direct.shape)]})
        ctx.prev_run_ocr = (logits, direct.copy(), decoded, list(decoded))
        sc = np.ascontiguousarray(np.transpose(logits, (0, 2, 1)))
        chars = list(eng.characters[:-1])
        nontriv, am = check_tensor(sc, list(eng.characters), chars, mon, ctx, site='run_ocr')
        srt = np.sort(sc, axis=1)
        margin = srt[:, -1, :] - srt[:, -2, :]
        for n in range(sc.shape[0]):
            if margin[n].min() < 1e-4:
                continue
            mon.count('run_ocr_lines')
            exp = collapse(am[n], sc.shape[1] - 1, chars)
            if decoded[n] != exp:
                mon.violation('run_ocr-greedy', {'line': n, 'got': decoded[n], 'expected': exp})
        if nontriv:
            mon.mark_nontrivial({'engine_paths': am})
        return
    C = case['C']
    if case['scores'].shape[2] > 4096 if 'scores' in case else False:
        mon.count('lines_over_4096_frames')
    chars = [chr((0x61 if C % 3 else 0x3b1) + k) for k in range(C - 1)] if C <= 41 else [chr(0x3400 + k + (0x800 if 0x3400 + k >= 0xD800 else 0)) for k in range(C - 1)]
    if C > 256:
        mon.count('alphabets_over_256_classes')
    if case['cls'] == 'huge_scores':
        mon.count('tensors_with_scores_in_the_thousands')
    if case['cls'] == 'near_ties':
        # no conversion between the matrix and the decoders: the arg-max of every frame is well defined whenever the two best values differ at all
        m = case['matrix']
        raw = not case['mode'].startswith('ulp')
        exp_path = [max(range(C), key=lambda c: (float(m[t, c]), -c)) for t in range(m.shape[0])]
        distinct = all(sorted(m[t].tolist())[-1] != sorted(m[t].tolist())[-2] for t in range(m.shape[0]))
        if not distinct:
            mon.skip_ambiguous('exact-tie')
            return
        exp = collapse(np.array(exp_path), C - 1, chars)
        gd = ctx.decoders.GreedyDecoder(chars + [ctx.decoders.BLANK_SYMBOL])
        mon.count('near_tie_lines')
        mon.count('near_tie_mode:' + case['mode'])
        try:
            g = gd(m.copy(), max_unnormalization=float('inf')).best_hyp() if raw else gd(m.copy()).best_hyp()
        except Exception as e:
            g = 'EXCEPTION ' + repr(e)[:200]
        if g != exp:
            mon.violation('standalone-greedy', {'site': 'near ties / extreme magnitudes: ' + case['mode'], 'got': g, 'expected': exp, 'path': exp_path})
        got = ctx.poe.greedy_decode_ctc(ctx.torch.from_numpy(np.ascontiguousarray(m.T[None]).copy()), chars + ['​'])
        if got[0] != exp:
            mon.violation('engine-greedy', {'site': 'near ties / extreme magnitudes: ' + case['mode'], 'got': got[0], 'expected': exp, 'path': exp_path})
        mon.mark_nontrivial({'near_ties': m})
        return
    if case['cls'] == 'exact_ties':
        # the statement fixes no tie rule for the arg-max, but its second sentence still demands that the engine's batched decoder
        # and the stand-alone decoder produce the same text for the same network output
        sc = case['scores']
        got = ctx.poe.greedy_decode_ctc(ctx.torch.from_numpy(sc.copy()), chars + ['​'])
        gd = ctx.decoders.GreedyDecoder(chars + [ctx.decoders.BLANK_SYMBOL])
        for n in range(sc.shape[0]):
            lp = ctx.torch.log_softmax(ctx.torch.from_numpy(sc[n].T.astype(np.float64)), dim=1).numpy()
            g = gd(lp).best_hyp()
            mon.count('tie_lines')
            if len(got) != sc.shape[0] or g != got[n]:
                mon.violation('engine-vs-standalone', {'site': 'exact ties', 'line': n, 'engine': got[n] if n < len(got) else None, 'standalone': g, 'scores': sc[n]})
        mon.mark_nontrivial({'ties': sc})
        return
    nontriv, _ = check_tensor(case['scores'], chars + ['​'], chars, mon, ctx, expected_paths=case['am'])
    # the stand-alone decoder with a symbol separator and a character table of multi-character symbols
    sc = case['scores']
    table = ['<%d>' % k if k % 3 == 0 else (chr(0x61 + k) if k % 7 else 'n%d\x00' % k) for k in range(C - 1)]       # multi-character symbols, one ending in U+0000
    gd_long_lived = ctx.decoders.GreedyDecoder(table + [ctx.decoders.BLANK_SYMBOL], symbol_separator='#')
    for sep in (' ', '|', ''):
        # a fresh decoder per separator, and one long-lived decoder whose public symbol_separator is re-assigned between the calls
        gd = ctx.decoders.GreedyDecoder(table + [ctx.decoders.BLANK_SYMBOL], symbol_separator=sep) if sep != '' else gd_long_lived
        if sep == '':
            first = gd_long_lived(ctx.torch.log_softmax(ctx.torch.from_numpy(sc[0].T.astype(np.float64)), dim=1).numpy()).best_hyp()
            gd_long_lived.symbol_separator = sep = '+'
            mon.count('separator_reassigned_on_a_live_decoder')
        n = 0
        lp = ctx.torch.log_softmax(ctx.torch.from_numpy(sc[n].T.astype(np.float64)), dim=1).numpy()
        am = sc[n].argmax(axis=0)
        syms, prev = [], None
        for a in am:
            if a != prev and a != C - 1:
                syms.append(table[a])
            prev = a
        got = gd(lp).best_hyp()
        mon.count('separator_lines')
        if got != sep.join(syms):
            mon.violation('standalone-greedy', {'site': 'symbol_separator=%r, multi-character symbols' % sep, 'got': got, 'expected': sep.join(syms), 'path': am})
    if nontriv:
        mon.mark_nontrivial({'paths': case['am'], 'C': C})


def extra(mon, ctx):
    """one engine call over a batch of more than 2^25 scores (several very long lines over a large alphabet): every line of the batch gets its greedy transcription"""
    if ctx.shard != 0:
        return
    torch = ctx.torch
    rng = np.random.default_rng([ctx.seed, 4, 2025])
    for N_, C, T in ((3, 1100, 10200), (7, 300, 16000)):
        assert N_ * C * T > 2 ** 25
        chars = [chr(0x4e00 + k) for k in range(C - 1)]
        sc = torch.zeros((N_, C, T), dtype=torch.float32)
        paths = rng.integers(0, C, size=(N_, T))
        paths[rng.random((N_, T)) < 0.4] = C - 1
        idx = torch.from_numpy(paths)[:, None, :]
        sc.scatter_(1, idx, 5.0)
        mon.cur_desc = {'leg': 'batch of more than 2^25 scores', 'shape': [N_, C, T]}
        got = ctx.poe.greedy_decode_ctc(sc, chars + ['\u200b'])
        del sc
        mon.count('batches_of_more_than_2^25_scores')
        mon.count('extra_evaluations')
        exp = [collapse(paths[n], C - 1, chars) for n in range(N_)]
        if len(got) != N_:
            mon.violation('engine-greedy', {'site': 'large batch', 'shape': [N_, C, T], 'lines_in': N_, 'transcriptions_out': len(got)})
            continue
        for n in range(N_):
            mon.count('engine_lines')
            if got[n] != exp[n]:
                mon.violation('engine-greedy', {'site': 'large batch', 'shape': [N_, C, T], 'line': n, 'got_len': len(got[n]), 'expected_len': len(exp[n])})
