"""C01 PAGE XML export/import preserves the page layout."""
import io
import os
import re

import numpy as np

ID = 'C01'
LEVEL = 'exploration'
TECHNIQUE = ('runtime monitoring: round-trip and fixpoint oracle on the real export/import functions over generated layouts (field-by-field comparison with the '
             'documented rounding spelled out independently; region order observed in the exported text, in the loaded object and after re-export)')
RULE = ('random layouts: 0-6 regions x 0-5 lines; coordinates int / float / negative / .5 ties / large; polygons of 3-12 points; heights present or absent; index '
        'present, absent or non-consecutive; transcription absent / empty / blanks only / leading+trailing blanks / markup characters / ]]> / combining marks / RTL / '
        'astral plane / tab, LF, CR, U+0085, U+2028 / long; confidence absent / 0 / 1 / random / rounding tie; region type and text present or absent; reading order '
        'none / full permutation / partial / referring to unknown ids; both PAGE versions; string, file and BytesIO variants. '
        'non-trivial = at least one region with a line; distinct = hash of the layout description History legs: reload after in-place edit of the first loaded layout; the exported page object is edited (13 kinds of edits) and exported again and must write what a page built from scratch with the edited content writes. Heights rounding to [0.0, 0.0]. Negative heights; explicitly closed outlines.')
RULE += ' Round 6: Coordinates at and beyond 2^31.'
RULE += ' Round 7: Inline tags together with carriage returns; confidences outside 0..1; a dangling reading-order entry X next to an unlisted region id_X.'
RULE += ' Round 8: Negative line indices; coordinate arrays with identical bytes in two integer types.'
ASSUMPTIONS = ['text is XML-legal Unicode (lxml refuses control characters)', 'page sizes are integers and region/line ids are unique non-empty strings',
               'a confidence is only set on lines that have a transcription (the attribute lives on the TextEquiv element)',
               'where the original has no heights (import guesses them) or no index (export writes the position) only the fixpoint and the remaining fields are required']
N = {'quick': 1200, 'thorough': 40000}
CLASSES = ['mixed', 'mixed', 'reading_order_full', 'reading_order_partial', 'text_classes', 'coord_classes', 'empty_page', 'many_regions']
REQUIRED = ['pages_with_byte_identical_coordinate_arrays_of_two_types', 'pages_with_negative_line_indices', 'exports_after_edit', 'edit:insert_line', 'edit:swap_reading_order_values', 'edit:reverse_regions', 'reloads_after_edit', 'roundtrips', 'fixpoints', 'regions_compared', 'lines_compared', 'reading_order_pages', 'reading_order_nonidentity', 'file_variant', 'bytesio_variant']
SHARDS = {'quick': 4, 'thorough': 16}

TEXTS = [None, '', ' ', '   ', ' lead', 'trail ', '  both  ', 'a<b>&amp;"\'c', ']]>', '<![CDATA[x]]>', 'é combining ạ̈', 'שלום עולם',
         'مرحبا abc 123', '\U0001F600 astral \U00020000', '\t tab\there', 'line\nbreak', 'cr\rx', 'crlf\r\nx', 'nel\u0085x', 'ls ps x',
         'nbsp x', '﻿bom', 'x' * 2048, '&#13; literal entity text', "quote ' \" mix", 'zero​width', 'plain text line']

TEXTS7 = ['tag <hi>x</hi>\rcr', '<a>\r\n</a>', 'if a<b and c>d\r', '<b>\u0085</b>', '<i>]]></i>\r', '> then <\r\r']

EDITS = ['insert_line', 'reverse_lines', 'delete_line', 'swap_reading_order_values', 'reverse_regions', 'swap_regions', 'add_region', 'remove_region',
         'set_text', 'new_reading_order', 'drop_reading_order', 'reading_order_entry_removed', 'nothing']


def apply_edit(L, pl, desc, e):
    """The same edit on the long-lived page object and on its description; returns False when the edit does not apply."""
    kind, a, b = e['kind'], e['a'], e['b']
    regs = desc['regions']
    if kind == 'nothing':
        return True
    if kind in ('insert_line', 'reverse_lines', 'delete_line', 'set_text'):
        if not regs:
            return False
        k = a % len(regs)
        dl, ol = regs[k]['lines'], pl.regions[k].lines
        if kind == 'insert_line':
            pos = b % (len(dl) + 1)
            d = {'id': 'new-%d-%d' % (a, b), 'baseline': [[1.0, 2.0], [30.0, 2.0]], 'polygon': [[1.0, 0.0], [30.0, 0.0], [30.0, 5.0], [1.0, 5.0]], 'heights': [3.0, 1.0],
                 'index': None, 'transcription': 'inserted', 'conf': None}
            dl.insert(pos, d)
            ol.insert(pos, make_line(L, d))
            return True
        if not dl:
            return False
        if kind == 'reverse_lines':
            dl.reverse()
            ol.reverse()
            return len(dl) > 1
        if kind == 'delete_line':
            del dl[b % len(dl)]
            del ol[b % len(ol)]
            return True
        dl[b % len(dl)]['transcription'] = 'edited %d' % b
        dl[b % len(dl)]['conf'] = 0.5
        ol[b % len(ol)].transcription = 'edited %d' % b
        ol[b % len(ol)].transcription_confidence = 0.5
        return True
    if kind == 'reverse_regions':
        regs.reverse()
        pl.regions.reverse()                      # in place: the list object stays the same
        return len(regs) > 1
    if kind == 'swap_regions':
        if len(regs) < 2:
            return False
        i, j = a % len(regs), b % len(regs)
        regs[i], regs[j] = regs[j], regs[i]
        new = list(pl.regions)
        new[i], new[j] = new[j], new[i]
        pl.regions = new                          # a new list object
        return i != j
    if kind == 'add_region':
        d = {'id': 'added-%d' % a, 'polygon': [[0.0, 0.0], [9.0, 0.0], [9.0, 9.0]], 'type': None, 'text': None, 'lines': []}
        pos = b % (len(regs) + 1)
        regs.insert(pos, d)
        pl.regions.insert(pos, make_region(L, d))
        return True
    if kind == 'remove_region':
        if not regs:
            return False
        del regs[a % len(regs)]
        del pl.regions[a % len(pl.regions)]
        return True
    ro = desc['reading_order']
    if kind == 'swap_reading_order_values':
        if not ro or len(ro) < 2:
            return False
        keys = list(ro)
        i, j = keys[a % len(keys)], keys[b % len(keys)]
        ro[i], ro[j] = ro[j], ro[i]
        pl.reading_order[i], pl.reading_order[j] = pl.reading_order[j], pl.reading_order[i]     # in place: the dict object stays the same
        return i != j
    if kind == 'reading_order_entry_removed':
        if not ro:
            return False
        k = list(ro)[a % len(ro)]
        del ro[k]
        del pl.reading_order[k]
        return True
    if kind == 'new_reading_order':
        ids = [r['id'] for r in regs]
        ids = ids[b % (len(ids) + 1):] + ids[:b % (len(ids) + 1)]
        desc['reading_order'] = {rid: n for n, rid in enumerate(ids)}
        pl.reading_order = dict(desc['reading_order'])
        return True
    if kind == 'drop_reading_order':
        desc['reading_order'] = None
        pl.reading_order = None
        return ro is not None
    raise AssertionError(kind)


def setup(ctx):
    from pero_ocr.core import layout
    ctx.L = layout


def rcoord(rng, mode):
    if mode == 'int':
        return float(int(rng.integers(-50, 4000)))
    if mode == 'tie':
        return float(int(rng.integers(-50, 4000))) + 0.5
    if mode == 'large':
        return float(rng.uniform(-1e6, 1e7)) if rng.random() < 0.7 else float(rng.choice([2 ** 31 - 1, 2 ** 31, 2 ** 31 + 600, -2 ** 31 - 5, 2 ** 33, 4.2e9]))      # also beyond 32 bits
    if mode == 'neg':
        return float(-rng.uniform(0, 500))
    return float(rng.uniform(-50, 4000))


def rpoly(rng, n, mode):
    modes = ['int', 'float', 'tie', 'neg', 'large'] if mode == 'any' else [mode]
    return [[rcoord(rng, str(rng.choice(modes))), rcoord(rng, str(rng.choice(modes)))] for _ in range(n)]


def gen(rng, i, ctx):
    cls = CLASSES[i % len(CLASSES)]
    nreg = int(rng.integers(0, 7))
    if cls == 'empty_page':
        nreg = int(rng.integers(0, 2))
    if cls == 'many_regions':
        nreg = int(rng.integers(4, 9))
    cmode = 'any' if cls in ('coord_classes', 'mixed') else 'float'
    regions = []
    for r in range(nreg):
        lines = []
        nlines = int(rng.integers(0, 6)) if cls != 'empty_page' else 0
        for l in range(nlines):
            t = TEXTS[int(rng.integers(0, len(TEXTS)))] if (cls == 'text_classes' or rng.random() < 0.6) else 'plain %d' % l
            conf = None
            if t is not None:
                conf = [None, 0.0, 1.0, float(rng.random()), 0.0005, 0.0015, 0.9995][int(rng.integers(0, 7))]
            lines.append({
                'id': 'r%d-l%03d' % (r, l) if rng.random() < 0.8 else 'line.%d.%d x' % (r, l),
                'baseline': rpoly(rng, int(rng.integers(2, 7)), cmode),
                'polygon': rpoly(rng, int(rng.integers(3, 13)), cmode),
                'heights': None if rng.random() < 0.3 else [float(rng.choice([0.0, 0.05, 0.25, 12.35, float(rng.uniform(0, 80))])), float(rng.uniform(0, 40))],
                'index': [None, l, l + 5, 100 - l, 0, int(rng.integers(0, 4))][int(rng.integers(0, 6))],
                'transcription': t, 'conf': conf})
        regions.append({'id': 'r%d' % r if rng.random() < 0.8 else 'reg-%d_x' % r, 'polygon': rpoly(rng, int(rng.integers(3, 13)), cmode),
                        'type': [None, 'paragraph', 'heading', 'caption'][int(rng.integers(0, 4))],
                        'text': [None, '', 'region <&> text\n y ', ' '][int(rng.integers(0, 4))], 'lines': lines})
    ro = None
    ids = [r['id'] for r in regions]
    if cls == 'reading_order_full' or (cls in ('mixed', 'many_regions') and rng.random() < 0.4):
        perm = list(ids)
        rng.shuffle(perm)
        ro = {rid: k for k, rid in enumerate(perm)}
    elif cls == 'reading_order_partial':
        perm = list(ids)
        rng.shuffle(perm)
        perm = perm[:int(rng.integers(0, len(perm) + 1))]
        ro = {rid: int(k * int(rng.integers(1, 4))) for k, rid in enumerate(perm)}
        if rng.random() < 0.4:
            ro['no-such-region'] = int(rng.integers(0, 5))
        if rng.random() < 0.3 and len(perm) >= 2:
            ro[perm[0]] = ro[perm[1]]          # equal indices: stable
    case = {'id': ['page.jpg', 'p 1/é&.png', 'x'][int(rng.integers(0, 3))], 'size': [int(rng.integers(0, 9000)), int(rng.integers(0, 9000))],
            'regions': regions, 'reading_order': ro, 'version': int(rng.integers(1, 3)), 'variant': ['string', 'file', 'bytesio'][int(rng.integers(0, 3))]}
    # drawn last so that the layouts of earlier rounds stay the same: heights that round to zero, and the edits of the long-lived-page leg
    for r in regions:
        for l in r['lines']:
            if l['heights'] is not None and rng.random() < 0.12:
                l['heights'] = [[0.0, 0.0], [0.04, 0.02], [0.0, 0.049], [0, 0]][int(rng.integers(0, 4))]
    # (round 5) negative heights (baseline outside the outline), outlines given as explicitly closed rings or closing only after rounding
    for r in regions:
        for l in r['lines']:
            if l['heights'] is not None and rng.random() < 0.1:
                l['heights'] = [[-3.2, 5.0], [-0.04, 1.0], [4.0, -2.5], [-12.0, -0.3]][int(rng.integers(0, 4))]
            if rng.random() < 0.12:
                first = l['polygon'][0]
                l['polygon'] = l['polygon'] + ([list(first)] if rng.random() < 0.6 else [[first[0] + 0.3, first[1] - 0.2]])
        if rng.random() < 0.1:
            r['polygon'] = r['polygon'] + [list(r['polygon'][0])]
    # (round 7) inline tags together with a carriage return; confidences outside 0..1 (log-probabilities, percentages); a dangling reading-order entry X next to an unlisted region 'id_X'
    for r in regions:
        for l in r['lines']:
            if rng.random() < 0.06:
                l['transcription'] = TEXTS7[int(rng.integers(0, len(TEXTS7)))]
            if l['transcription'] is not None and rng.random() < 0.08:
                l['conf'] = [1.002, -0.25, 87.5, -1234.5678, 1.0004, -0.0004, 2.0][int(rng.integers(0, 7))]
        if rng.random() < 0.05:
            r['text'] = TEXTS7[int(rng.integers(0, len(TEXTS7)))]
    if ro is not None and rng.random() < 0.35:
        unlisted = [r for r in regions if r['id'] not in ro]
        if unlisted:
            u = unlisted[int(rng.integers(0, len(unlisted)))]
            stem = 'zz%d' % int(rng.integers(0, 100))
            u['id'] = 'id_' + stem
            ro[stem] = int(rng.integers(0, 3))
    # (round 8) negative line indices; two lines of one page whose coordinate arrays hold the same bytes in different integer types (-5 as int32, 4294967291 as uint32)
    all_lines = [l for r in regions for l in r['lines']]
    for l in all_lines:
        if rng.random() < 0.08:
            l['index'] = -int(rng.integers(1, 9))
    if len(all_lines) >= 2 and rng.random() < 0.15:
        a_, b_ = [all_lines[int(k)] for k in rng.choice(len(all_lines), size=2, replace=False)]
        pts = [[-int(rng.integers(1, 60)), int(rng.integers(0, 900))] for _ in range(int(rng.integers(3, 6)))]
        pts[1][1] = -int(rng.integers(1, 30))
        base = [[-int(rng.integers(1, 60)), int(rng.integers(0, 900))], [int(rng.integers(100, 900)), int(rng.integers(0, 900))]]
        wrap = lambda pp: [[v % (1 << 32) for v in p_] for p_ in pp]
        a_['polygon'], a_['baseline'], a_['dtype'] = [[float(v) for v in p_] for p_ in pts], [[float(v) for v in p_] for p_ in base], 'int32'
        b_['polygon'], b_['baseline'], b_['dtype'] = [[float(v) for v in p_] for p_ in wrap(pts)], [[float(v) for v in p_] for p_ in wrap(base)], 'uint32'
        case['byte_twins'] = True
    case['edits'] = [{'kind': EDITS[int(rng.integers(0, len(EDITS)))], 'a': int(rng.integers(0, 1000)), 'b': int(rng.integers(0, 1000))} for _ in range(int(rng.integers(1, 4)))]
    return case


def describe(case):
    return case


def make_line(L, l):
    return L.TextLine(id=l['id'], baseline=np.array(l['baseline'], dtype=l.get('dtype')), polygon=np.array(l['polygon'], dtype=l.get('dtype')),
                      heights=None if l['heights'] is None else list(l['heights']), transcription=l['transcription'],
                      index=l['index'], transcription_confidence=l['conf'])


def make_region(L, r):
    reg = L.RegionLayout(r['id'], np.array(r['polygon'], dtype=np.float64), region_type=r['type'])
    reg.transcription = r['text']
    for l in r['lines']:
        reg.lines.append(make_line(L, l))
    return reg


def build(L, case):
    pl = L.PageLayout(id=case['id'], page_size=tuple(case['size']))
    for r in case['regions']:
        pl.regions.append(make_region(L, r))
    if case['reading_order'] is not None:
        pl.reading_order = dict(case['reading_order'])
    return pl


def strip_ts(x):
    return re.sub(r'<(Created|LastChange)>[^<]*</\1>', '', x)


def rnd_pts(pts):
    return [[int(round(float(x))), int(round(float(y)))] for x, y in pts]   # python round: half to even


def load(L, xml, variant, ctx, mon):
    if variant == 'file':
        p = os.path.join(ctx.tmpdir, 'page.xml')
        with open(p, 'w', encoding='utf-8') as f:
            f.write(xml)
        mon.count('file_variant')
        return L.PageLayout(file=p)
    if variant == 'bytesio':
        mon.count('bytesio_variant')
        pl = L.PageLayout()
        pl.from_pagexml(io.BytesIO(xml.encode('utf-8')))
        return pl
    pl = L.PageLayout()
    pl.from_pagexml_string(xml)
    return pl


def region_ids_in_xml(xml):
    return re.findall(r'<TextRegion\b[^>]*\bid="([^"]*)"', xml)


def check(case, mon, ctx):
    L = ctx.L
    ver = L.PAGEVersion(case['version'])
    pl = build(L, case)
    if case.get('byte_twins'):
        mon.count('pages_with_byte_identical_coordinate_arrays_of_two_types')
    if any(isinstance(l['index'], int) and l['index'] < 0 for r in case['regions'] for l in r['lines']):
        mon.count('pages_with_negative_line_indices')
    try:
        x1 = pl.to_pagexml_string(version=ver)
        l1 = load(L, x1, case['variant'], ctx, mon)
        x2 = l1.to_pagexml_string(version=ver)
        l2 = load(L, x2, case['variant'], ctx, mon)
        x3 = l2.to_pagexml_string(version=ver)
    except Exception as e:
        mon.violation('roundtrip-raises', {'exception': repr(e)[:300]})
        return
    mon.count('roundtrips')
    if any(r['lines'] for r in case['regions']):
        mon.mark_nontrivial()
    mon.count('fixpoints')
    mon.observe('re-exported document', strip_ts(x2))
    if strip_ts(x2) != strip_ts(x3):
        d = next((k for k, (a, b) in enumerate(zip(strip_ts(x2), strip_ts(x3))) if a != b), min(len(x2), len(x3)))
        mon.violation('fixpoint', {'at': d, 'x2': strip_ts(x2)[max(0, d - 80):d + 80], 'x3': strip_ts(x3)[max(0, d - 80):d + 80]})
    if l1.id != case['id'] or tuple(l1.page_size) != tuple(case['size']):
        mon.violation('page-id-and-size', {'id': l1.id, 'size': list(l1.page_size)})
    # expected region order
    ro = case['reading_order']
    exp = list(case['regions'])
    if ro is not None:
        mon.count('reading_order_pages')
        exp = sorted(exp, key=lambda r: ro.get(r['id'], float('inf')))   # sorted() is stable
        if [r['id'] for r in exp] != [r['id'] for r in case['regions']]:
            mon.count('reading_order_nonidentity')
    exp_ids = [r['id'] for r in exp]
    from xml.sax.saxutils import unescape
    for name, got in (('exported-text', [unescape(s, {'&quot;': '"'}) for s in region_ids_in_xml(x1)]), ('re-exported-text', [unescape(s, {'&quot;': '"'}) for s in region_ids_in_xml(x2)]),
                      ('held-after-export', [r.id for r in pl.regions]), ('second-load', [r.id for r in l2.regions])):
        if got != exp_ids:
            mon.violation('regions-in-reading-order', {'where': name, 'got': got, 'expected': exp_ids, 'reading_order': ro})
    if case['variant'] == 'file' and [r.id for r in l1.regions] != exp_ids:
        mon.violation('regions-in-reading-order', {'where': 'PageLayout(file=...).regions', 'got': [r.id for r in l1.regions], 'expected': exp_ids, 'reading_order': ro})
    if ro is not None:
        kept = {k: v for k, v in (l1.reading_order or {}).items()}
        if kept != ro:
            mon.violation('reading-order-preserved', {'got': kept, 'expected': ro})
    got_by_id = {r.id: r for r in l1.regions}
    if sorted(got_by_id) != sorted(exp_ids) or len(l1.regions) != len(exp_ids):
        mon.violation('same-regions', {'got': [r.id for r in l1.regions], 'expected': exp_ids})
        return
    for r in exp:
        g = got_by_id[r['id']]
        mon.count('regions_compared')
        if g.region_type != r['type']:
            mon.violation('region-type', {'region': r['id'], 'got': g.region_type, 'expected': r['type']})
        if g.transcription != r['text']:
            mon.violation('region-text', {'region': r['id'], 'got': g.transcription, 'expected': r['text']})
        if np.asarray(g.polygon).tolist() != rnd_pts(r['polygon']):
            mon.violation('region-polygon', {'region': r['id'], 'got': np.asarray(g.polygon), 'expected': rnd_pts(r['polygon'])})
        if [l.id for l in g.lines] != [l['id'] for l in r['lines']]:
            mon.violation('same-lines', {'region': r['id'], 'got': [l.id for l in g.lines], 'expected': [l['id'] for l in r['lines']]})
            continue
        for pos, (gl, l) in enumerate(zip(g.lines, r['lines'])):
            mon.count('lines_compared')
            w = {'region': r['id'], 'line': l['id']}
            if gl.transcription != l['transcription']:
                mon.violation('line-transcription', dict(w, got=gl.transcription, expected=l['transcription']))
            if np.asarray(gl.baseline).tolist() != rnd_pts(l['baseline']):
                mon.violation('line-baseline', dict(w, got=np.asarray(gl.baseline), expected=rnd_pts(l['baseline'])))
            if np.asarray(gl.polygon).tolist() != rnd_pts(l['polygon']):
                mon.violation('line-polygon', dict(w, got=np.asarray(gl.polygon), expected=rnd_pts(l['polygon'])))
            if l['heights'] is not None:
                e = [float('%.1f' % h) for h in l['heights']]
                if list(map(float, gl.heights)) != e:
                    mon.violation('line-heights', dict(w, got=list(map(float, gl.heights)), expected=e))
            elif gl.heights is None or len(gl.heights) != 2:
                mon.violation('line-heights', dict(w, got=gl.heights, note='no heights after import'))
            e_idx = l['index'] if l['index'] is not None else pos
            if gl.index != e_idx:
                mon.violation('line-index', dict(w, got=gl.index, expected=e_idx))
            e_conf = None if l['conf'] is None else float('%.3f' % l['conf'])
            if gl.transcription_confidence != e_conf:
                mon.violation('line-confidence', dict(w, got=gl.transcription_confidence, expected=e_conf))
    # history in one process: edit the first loaded layout's arrays in place, then load the same document again -> must be the document again
    try:
        for r in l1.regions:
            r.polygon += 7
            for l in r.lines:
                l.polygon += 7
                l.baseline -= 3
        l1b = load(L, x1, case['variant'], ctx, mon)
        x2b = l1b.to_pagexml_string(version=ver)
        mon.count('reloads_after_edit')
        if strip_ts(x2b) != strip_ts(x2):
            d = next((k for k, (a, b) in enumerate(zip(strip_ts(x2b), strip_ts(x2))) if a != b), min(len(x2b), len(x2)))
            mon.violation('loading-yields-the-same-page', {'note': 'a second load of the same document, after the first loaded layout was edited in place, gives a different page',
                          'at': d, 'second_load': strip_ts(x2b)[max(0, d - 80):d + 80], 'first_load': strip_ts(x2)[max(0, d - 80):d + 80]})
    except Exception as e:
        mon.violation('roundtrip-raises', {'exception': repr(e)[:300], 'step': 'reload after in-place edit'})

    # history on one long-lived page: it was exported above; now it is edited and exported again.  What is written must be what a page built
    # from scratch with the edited content writes (export is a function of the page's content, and regions are held in reading order).
    import copy
    desc = copy.deepcopy(case)
    desc['regions'] = [copy.deepcopy(r) for r in exp]            # the held order after the first export
    try:
        for step, e in enumerate(case.get('edits', [])):
            applied = apply_edit(L, pl, desc, e)
            x_long = pl.to_pagexml_string(version=ver)
            fresh = build(L, desc)
            x_fresh = fresh.to_pagexml_string(version=ver)
            mon.count('exports_after_edit')
            if applied:
                mon.count('edit:' + e['kind'])
            if strip_ts(x_long) != strip_ts(x_fresh):
                d = next((k for k, (p, q) in enumerate(zip(strip_ts(x_long), strip_ts(x_fresh))) if p != q), min(len(x_long), len(x_fresh)))
                mon.violation('export-depends-only-on-the-page-content', {'edits': case['edits'][:step + 1], 'at': d,
                              'long_lived_page': strip_ts(x_long)[max(0, d - 100):d + 100], 'page_built_from_scratch': strip_ts(x_fresh)[max(0, d - 100):d + 100]},
                              mechanism='export-after-edit:' + e['kind'])
                break
            if [r.id for r in pl.regions] != [r.id for r in fresh.regions]:
                mon.violation('regions-in-reading-order', {'where': 'held after edit ' + e['kind'], 'got': [r.id for r in pl.regions], 'expected': [r.id for r in fresh.regions]})
                break
            desc['regions'] = sorted(desc['regions'], key=lambda r: (desc['reading_order'] or {}).get(r['id'], float('inf'))) if desc['reading_order'] is not None else desc['regions']
    except Exception as e_:
        mon.violation('roundtrip-raises', {'exception': repr(e_)[:300], 'step': 'export after edit', 'edits': case.get('edits')})
