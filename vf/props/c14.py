"""C14 Confusion networks keep every hypothesis as an ordered path."""
import copy
import itertools
import math

import numpy as np

ID = 'C14'
LEVEL = 'exploration'
TECHNIQUE = ('runtime monitoring: history checker over sequences of add_hypothese calls (readability DP, order-preserving embedding of the old '
             'network into the new one, weight conservation) and product-enumeration oracle for path listing')
RULE = ('histories of 1-6 hypotheses over {a,b,c} (len 0-6; classes: random, prefixes/suffixes of one another, insertion bursts at start/middle/end, '
        'empty hypotheses, all orders of a small set) with positive scores, through add_hypothese / produce_cn_from_boh / normalize_cn / '
        'best_cn_path / sorted_cn_paths. non-trivial = at least two different non-empty hypotheses; distinct = hash of the history Weights many orders of magnitude apart; peaky bags; single hypotheses of 1000-1500 symbols. Bags as generators; default weights on a bag built with another LM scale.')
RULE += ' Round 6: A second network after add + sort on the same bag; hypotheses of class indices; a network of 3^13 paths.'
RULE += ' Round 9: Bags whose raw weights are all positive but subnormal.'
RULE += ' Round 7: Raw masses within 1e-6 of 1; a light hypothesis added after normalisation; hypotheses of more than 4096 symbols.'
ASSUMPTIONS = ['symbols are 1-character strings (sorted_cn_paths concatenates them)',
               'all readable strings are enumerated when the network has <= 4000 arc combinations, otherwise only the added hypotheses are required to stay readable']
N = {'quick': 4000, 'thorough': 300000}
CLASSES = ['random', 'prefix_suffix', 'end_burst', 'start_burst', 'middle_burst', 'with_empty', 'permutations', 'boh', 'boh_lm', 'single', 'wide_scores', 'long_single']
REQUIRED = ['bags_of_subnormal_weights', 'hypotheses_over_4096_symbols_added', 'networks_with_raw_mass_within_1e-6_of_1', 'networks_after_add_and_sort', 'hypotheses_of_class_indices', 'million_path_networks', 'bags_as_one_shot_iterables', 'default_weight_networks', 'networks_over_1000_positions', 'peaky_bags', 'wide_score_histories', 'adds_checked', 'old_readable_checked', 'weight_checked', 'paths_checked', 'boh_checked', 'single_checked']
KNOWN_EMPTY = 'empty hypothesis added to an empty network'


def setup(ctx):
    from pero_ocr.decoding import confusion_networks as cnm
    from pero_ocr.decoding.bag_of_hypotheses import BagOfHypotheses
    ctx.cnm, ctx.BOH = cnm, BagOfHypotheses


def rs(rng, lo, hi, alpha='abc'):
    return ''.join(alpha[int(k)] for k in rng.integers(0, len(alpha), size=int(rng.integers(lo, hi + 1))))


def gen(rng, i, ctx):
    cls = CLASSES[i % len(CLASSES)]
    alpha = 'abc'[:int(rng.integers(2, 4))]
    n = int(rng.integers(1, 7))
    base = rs(rng, 1, 5, alpha)
    if cls == 'prefix_suffix':
        hyps = []
        for _ in range(n):
            s = int(rng.integers(0, len(base))); e = int(rng.integers(s, len(base) + 1))
            hyps.append(base[s:e] if rng.random() < 0.8 else rs(rng, 0, 5, alpha))
    elif cls == 'end_burst':
        hyps = [base] + [base + rs(rng, 1, 3, alpha) for _ in range(n - 1)]
    elif cls == 'start_burst':
        hyps = [base] + [rs(rng, 1, 3, alpha) + base for _ in range(n - 1)]
    elif cls == 'middle_burst':
        k = int(rng.integers(0, len(base) + 1))
        hyps = [base] + [base[:k] + rs(rng, 1, 3, alpha) + base[k:] for _ in range(n - 1)]
    elif cls == 'with_empty':
        hyps = [rs(rng, 0, 4, alpha) if rng.random() < 0.6 else '' for _ in range(n)]
        if rng.random() < 0.5:
            hyps[0] = ''
    elif cls == 'single':
        hyps = [rs(rng, 0, 6, alpha)]
    elif cls == 'long_single':
        hyps = [rs(rng, 1000, 1500, alpha)]          # a long text line: more than a thousand positions
    else:
        hyps = [rs(rng, 0, 6, alpha) for _ in range(n)]
    if cls != 'single' and rng.random() < 0.3:
        rng.shuffle(hyps)
    scores = [float(rng.choice([0.25, 0.5, 1.0, 2.0])) if rng.random() < 0.6 else float(rng.uniform(0.01, 3.0)) for _ in hyps]
    if cls == 'wide_scores':
        # weights many orders of magnitude apart (posteriors of a peaky bag): ascending, descending or mixed
        ex = rng.uniform(-20, 20, size=len(hyps))
        mode = int(rng.integers(0, 3))
        ex = np.sort(ex) if mode == 0 else (np.sort(ex)[::-1] if mode == 1 else ex)
        if mode == 0:
            ex = np.cumsum(np.abs(rng.uniform(8, 18, size=len(hyps)))) - 30      # each weight at least 1e8 times everything before it
        scores = [float(10.0 ** e) for e in ex]
    case = {'cls': cls, 'hyps': list(hyps), 'scores': scores}
    if cls == 'permutations':
        case['hyps'] = hyps[:4]
        case['scores'] = scores[:4]
    if cls in ('boh', 'boh_lm'):
        case['vis'] = [float(-rng.uniform(0, 6)) for _ in hyps]
        if rng.random() < 0.35:
            # a peaky bag: later hypotheses tens of nats below the first ones (still positive weights)
            case['vis'] = [float(-rng.uniform(0, 4) - (0 if k == 0 else rng.uniform(30, 90))) for k in range(len(hyps))]
            if rng.random() < 0.5:
                case['vis'] = case['vis'][::-1]
        case['lm'] = [float(-rng.uniform(0, 6)) for _ in hyps] if cls == 'boh_lm' else None
        case['weights'] = (float(rng.choice([1.0, 0.5, 2.0])), float(rng.choice([0.0, 1.0, 0.7, 3.0])))
        # a bag holds distinct transcripts
        seen, hh = set(), []
        for h in hyps:
            if h not in seen:
                seen.add(h); hh.append(h)
        case['hyps'] = hh
    return case


def describe(case):
    return {k: v for k, v in case.items()}


def readable(cn, s):
    cur = {0}
    for pos in cn:
        nxt = set()
        for i in cur:
            if None in pos:
                nxt.add(i)
            if i < len(s) and s[i] in pos:
                nxt.add(i + 1)
        cur = nxt
        if not cur:
            return False
    return len(s) in cur


def all_readable(cn, limit=4000):
    n = 1
    for pos in cn:
        n *= max(1, len(pos))
        if n > limit:
            return None
    out = set()
    for arcs in itertools.product(*[list(p.keys()) for p in cn]):
        out.add(''.join(a for a in arcs if a is not None))
    return out


def close(a, b):
    return abs(a - b) <= 1e-9 * max(abs(a), abs(b)) + 1e-300


def gained_on_one_arc(old, new, score):
    """new position == old position with `score` added on exactly one (possibly new) arc"""
    if not set(old).issubset(new):
        return False
    changed = 0
    for k, v in new.items():
        ov = old.get(k, 0.0)
        if close(v, ov):
            if k not in old and not close(v, 0.0):
                return False
            continue
        if close(v, ov + score):
            changed += 1
        else:
            return False
    return changed == 1


def embedding_ok(old_cn, new_cn, score, old_total):
    """order-preserving embedding: every old position maps to a new one that gained `score` on one arc; every other
    new position is an inserted one {None: old_total, sym: score}"""
    n, m = len(old_cn), len(new_cn)
    ok = [[False] * (m + 1) for _ in range(n + 1)]
    ok[0][0] = True
    for i in range(n + 1):
        for j in range(m + 1):
            if not ok[i][j]:
                continue
            if j < m:
                npos = new_cn[j]
                # inserted position
                if len(npos) == 2 and None in npos and close(npos[None], old_total) and close(sum(npos.values()), old_total + score):
                    ok[i][j + 1] = True
                if i < n and gained_on_one_arc(old_cn[i], npos, score):
                    ok[i + 1][j + 1] = True
    return ok[n][m]


def run_history(hyps, scores, mon, ctx, label=''):
    cnm = ctx.cnm
    cn = []
    total = 0.0           # total score that the network is expected to hold
    must_read = []        # hypotheses that must stay readable
    lost_empty = False
    for h, sc in zip(hyps, scores):
        was_empty = (cn == [])
        before = copy.deepcopy(cn)
        before_readable = all_readable(before) if before else set()
        cn = cnm.add_hypothese(cn, h, sc)
        mon.count('adds_checked')
        if was_empty and h == '':
            # the data structure cannot hold a weight without a position: documented known finding, reported once per
            # history; the expectations below continue without that hypothesis so that anything else is still seen
            if cn == []:
                if not lost_empty:
                    mon.violation('old-readable', {'history': hyps, 'lost': h, 'score': sc}, mechanism=KNOWN_EMPTY)
                lost_empty = True
                continue
        old_total = total
        total += sc
        must_read.append(h)
        if not readable(cn, h):
            mon.violation('new-readable', {'history': hyps, 'added': h, 'before': before, 'after': cn})
        mon.count('old_readable_checked')
        olds = before_readable if before_readable is not None else set(must_read[:-1])
        lost = sorted(s for s in olds if not readable(cn, s))
        if lost:
            mon.violation('old-readable', {'history': hyps, 'added': h, 'lost': lost[:5], 'before': before, 'after': cn})
        mon.count('weight_checked')
        bad = [k for k, pos in enumerate(cn) if not close(sum(pos.values()), total) or min(pos.values()) < 0]
        if bad:
            mon.violation('weight-conserved', {'history': hyps, 'scores': scores, 'positions': bad, 'expected_total': total, 'after': cn})
        elif not was_empty and sc < 1e-6 * old_total:
            mon.skip_ambiguous('score below the round-off of the existing weights')
        elif not was_empty and not embedding_ok(before, cn, sc, old_total):
            mon.violation('one-arc-gains-score', {'history': hyps, 'added': h, 'score': sc, 'before': before, 'after': cn})
    return cn, must_read, total


def check_paths(cn, mon, ctx, info):
    cnm = ctx.cnm
    ncn = cnm.normalize_cn(copy.deepcopy(cn))
    for k, pos in enumerate(ncn):
        if not close(sum(pos.values()), 1.0) or min(pos.values()) < -1e-12:
            mon.violation('normalised-sums-to-1', dict(info, position=k, weights=pos))
            return
    if cn and all(pos for pos in cn):
        # networks whose raw mass is merely close to 1 (posteriors of a list whose tail was cut off), and the history normalise -> add a light hypothesis -> normalise
        t0 = sum(cn[0].values())
        for target in (1 - 4e-7, 1 + 7e-7, 1 - 9e-8):
            n2 = cnm.normalize_cn([{k_: v_ * (target / t0) for k_, v_ in pos.items()} for pos in cn])
            mon.count('networks_with_raw_mass_within_1e-6_of_1')
            bad = [k for k, pos in enumerate(n2) if not close(sum(pos.values()), 1.0)]
            if bad:
                mon.violation('normalised-sums-to-1', dict(info, position=bad[0], total=sum(n2[bad[0]].values()), note='raw mass %r before normalisation' % target))
                break
        n3 = cnm.normalize_cn(cnm.add_hypothese(copy.deepcopy(ncn), 'ab', 7e-7))
        bad = [k for k, pos in enumerate(n3) if not close(sum(pos.values()), 1.0)]
        if bad:
            mon.violation('normalised-sums-to-1', dict(info, position=bad[0], total=sum(n3[bad[0]].values()), note='a hypothesis of weight 7e-7 was added to the normalised network, which was then normalised again'))
    nprod = 1
    for pos in ncn:
        nprod *= len(pos)
    if nprod > 3000:
        return
    paths = cnm.sorted_cn_paths(ncn)
    mon.count('paths_checked')
    if not ncn:
        if paths != []:
            mon.violation('paths-product', dict(info, got=paths))
        return
    exp = []
    for arcs in itertools.product(*[list(p.items()) for p in ncn]):
        s = ''.join(a for a, _ in arcs if a is not None)
        p = 1.0
        for _, w in arcs:
            p *= w
        exp.append((s, p))
    got_sorted = sorted((s, round(p, 12)) for s, p in paths)
    exp_sorted = sorted((s, round(p, 12)) for s, p in exp)
    if len(paths) != len(exp) or any(a[0] != b[0] or not close(a[1], b[1]) for a, b in zip(got_sorted, exp_sorted)):
        mon.violation('paths-product', dict(info, n_got=len(paths), n_expected=len(exp), got=paths[:8]))
    if any(paths[k][1] < paths[k + 1][1] - 1e-12 for k in range(len(paths) - 1)):
        mon.violation('paths-non-increasing', dict(info, got=paths[:8]))
    if not close(sum(p for _, p in paths), 1.0):
        mon.violation('paths-sum-to-1', dict(info, total=sum(p for _, p in paths)))
    # the greedy path is the most probable path
    best = cnm.best_cn_path(copy.deepcopy(ncn))
    top = max(p for _, p in exp)
    if not any(s == best and close(p, top) for s, p in exp):
        mon.violation('best-path-is-most-probable', dict(info, best=best, top=top))


def check(case, mon, ctx):
    cnm = ctx.cnm
    hyps, scores = case['hyps'], case['scores'][:len(case['hyps'])]
    if len(set(h for h in hyps if h)) >= 2:
        mon.mark_nontrivial()
    if case['cls'] in ('single', 'long_single'):
        h = hyps[0]
        if len(h) >= 1000:
            mon.count('networks_over_1000_positions')
        cn = cnm.add_hypothese([], h, scores[0])
        mon.count('single_checked')
        ncn = cnm.normalize_cn(copy.deepcopy(cn))
        if cnm.best_cn_path(copy.deepcopy(ncn)) != (h if h else []) and not (h == '' and cnm.best_cn_path(ncn) in ('', [])):
            mon.violation('single-reads-back', {'hyp': h, 'best': cnm.best_cn_path(ncn)})
        paths = cnm.sorted_cn_paths(ncn)
        if h and (len(paths) != 1 or paths[0][0] != h or not close(paths[0][1], 1.0)):
            mon.violation('single-reads-back', {'hyp': h, 'paths': paths})
        # the same hypothesis as a sequence of class indices (0 is a class like any other)
        if h and len(h) < 50:
            idx = [ord(ch) - ord('a') for ch in h]
            cn_i = cnm.add_hypothese([], idx, scores[0])
            mon.count('hypotheses_of_class_indices')
            if list(cnm.best_cn_path(cnm.normalize_cn(copy.deepcopy(cn_i)))) != idx:
                mon.violation('single-reads-back', {'hyp': idx, 'best': list(cnm.best_cn_path(cnm.normalize_cn(copy.deepcopy(cn_i)))), 'note': 'symbols given as class indices'})
        # also through a bag
        boh = ctx.BOH()
        boh.add(h, -1.5)
        cn2 = cnm.produce_cn_from_boh(boh)
        if h and (cnm.best_cn_path(cn2) != h or [p[0] for p in cnm.sorted_cn_paths(cn2)] != [h]):
            mon.violation('single-reads-back', {'hyp': h, 'via': 'bag', 'cn': cn2})
        return
    if case['cls'] in ('boh', 'boh_lm'):
        boh = ctx.BOH(lm_weight=case['weights'][1])
        for k, h in enumerate(hyps):
            boh.add(h, case['vis'][k], case['lm'][k] if case['lm'] else None)
        vw, lw = case['weights']
        exp_scores = [math.exp(vw * case['vis'][k] + (lw * case['lm'][k] if case['lm'] else 0.0)) for k in range(len(hyps))]
        raw = cnm.produce_cn_from_boh(boh, visual_weight=vw, lm_weight=lw, normalize=False)
        mon.count('boh_checked')
        if max(exp_scores) > 1e12 * min(exp_scores):
            mon.count('peaky_bags')
        # the same history through add_hypothese directly, under the full history monitor
        cn, must_read, total = run_history(hyps, exp_scores, mon, ctx)
        if raw != cn and not (len(raw) == len(cn) and all(set(a) == set(b) and all(close(a[k], b[k]) for k in a) for a, b in zip(raw, cn))):
            mon.violation('boh-equals-history', {'hyps': hyps, 'raw': raw, 'direct': cn})
        norm = cnm.produce_cn_from_boh(boh, visual_weight=vw, lm_weight=lw, normalize=True)
        for k, pos in enumerate(norm):
            if not close(sum(pos.values()), 1.0):
                mon.violation('normalised-sums-to-1', {'hyps': hyps, 'position': k, 'weights': pos})
                break
        for h in must_read:
            if not readable(norm, h):
                mon.violation('new-readable', {'hyps': hyps, 'lost': h, 'cn': norm})
        check_paths(raw, mon, ctx, {'hyps': hyps})
        # the same bag handed over as a one-shot iterable of its hypotheses, and with the weights left at their defaults (visual 1, LM 1 - whatever the bag's own LM scale is)
        same = lambda a, b: a == b or (len(a) == len(b) and all(set(x) == set(y) and all(close(x[k], y[k]) for k in x) for x, y in zip(a, b)))
        try:
            raw_it = cnm.produce_cn_from_boh((h for h in boh), visual_weight=vw, lm_weight=lw, normalize=False)
            mon.count('bags_as_one_shot_iterables')
            if not same(raw_it, raw):
                mon.violation('boh-equals-history', {'hyps': hyps, 'note': 'the bag handed over as a generator of its hypotheses gives another network', 'from_generator': raw_it[:3], 'from_bag': raw[:3]})
        except Exception as e:
            mon.violation('boh-equals-history', {'hyps': hyps, 'note': 'a generator of hypotheses is not accepted', 'exception': repr(e)[:200]})
        # history on the bag object: a network was produced from it above; now a hypothesis is added that sorts ahead of the others, the bag is sorted, and a network
        # is produced again - it is the network of a bag built from scratch with those hypotheses in that order
        if hyps:
            new_t = (hyps[0] + 'c') if (hyps[0] + 'c') not in hyps else (hyps[0] + 'cc')
            boh.add(new_t, max(case['vis']) + 1.0, (max(case['lm']) if case['lm'] else None))
            boh.sort()
            again = cnm.produce_cn_from_boh(boh, visual_weight=vw, lm_weight=lw, normalize=False)
            fresh_bag = ctx.BOH(lm_weight=case['weights'][1])
            for h in boh:
                fresh_bag.add(h.transcript, h.vis_sc, h.lm_sc)
            ref_again = cnm.produce_cn_from_boh(fresh_bag, visual_weight=vw, lm_weight=lw, normalize=False)
            mon.count('networks_after_add_and_sort')
            if not same(again, ref_again) or not readable(again, new_t):
                mon.violation('boh-equals-history', {'hyps': [h.transcript for h in boh], 'note': 'second network from a bag that got a hypothesis and was sorted after the first network was produced',
                              'from_the_long_lived_bag': again[:3], 'from_a_bag_built_from_scratch': ref_again[:3]})
            boh = ctx.BOH(lm_weight=case['weights'][1])
            for k, h in enumerate(hyps):
                boh.add(h, case['vis'][k], case['lm'][k] if case['lm'] else None)
        dflt = cnm.produce_cn_from_boh(boh, normalize=False)
        exp_dflt = [math.exp(case['vis'][k] + (case['lm'][k] if case['lm'] else 0.0)) for k in range(len(hyps))]
        cn_d, _, _ = run_history(hyps, exp_dflt, mon, ctx)
        mon.count('default_weight_networks')
        if not same(dflt, cn_d):
            mon.violation('boh-equals-history', {'hyps': hyps, 'note': 'weights left at their defaults (1, 1); the bag was built with LM scale %r' % lw, 'raw': dflt[:3], 'direct': cn_d[:3]})
        return
    orders = [list(range(len(hyps)))]
    if case['cls'] == 'permutations':
        orders = [list(p) for p in itertools.permutations(range(len(hyps)))]
    for order in orders:
        hh = [hyps[k] for k in order]
        ss = [scores[k] for k in order]
        if case['cls'] == 'wide_scores':
            mon.count('wide_score_histories')
        cn, must_read, total = run_history(hh, ss, mon, ctx)
        mon.observe('network', [sorted((repr(k), round(v, 12)) for k, v in pos.items()) for pos in cn])
        check_paths(cn, mon, ctx, {'history': hh, 'scores': ss})


def long_hypotheses(mon, ctx):
    """a hypothesis of more than 4096 symbols added to a network of as many positions (a whole paragraph decoded as one line): more than 2^24 alignment cells"""
    cnm = ctx.cnm
    rng = np.random.default_rng([ctx.seed, 14, 4242])
    for n in (4100 + 2 * int(rng.integers(0, 4)), 4101 + 2 * int(rng.integers(0, 4))):          # an even and an odd number of positions
        long_hypothesis(mon, ctx, rng, n)


def long_hypothesis(mon, ctx, rng, n):
    cnm = ctx.cnm
    base = ''.join(rng.choice(list('abc'), size=n))
    pos = int(rng.integers(100, n - 100))
    longer = base[:pos] + 'c' + base[pos:]
    cn = cnm.add_hypothese([], base, 0.7)
    cn = cnm.add_hypothese(cn, longer, 0.3)
    mon.count('hypotheses_over_4096_symbols_added')
    mon.count('extra_evaluations')
    mon.cur_desc = {'leg': 'long hypotheses', 'lengths': [len(base), len(longer)], 'inserted_at': pos}
    if not readable(cn, longer):
        mon.violation('new-readable', {'lengths': [len(base), len(longer)], 'positions': len(cn), 'note': 'the added hypothesis of %d symbols cannot be read from the network' % len(longer)})
    if not readable(cn, base):
        mon.violation('old-readable', {'lengths': [len(base), len(longer)], 'positions': len(cn)})
    bad = [k for k, p_ in enumerate(cn) if not close(sum(p_.values()), 1.0)]
    if bad:
        mon.violation('weight-conserved', {'lengths': [len(base), len(longer)], 'positions_with_another_total': bad[:5], 'total_there': sum(cn[bad[0]].values())})


def faint_bags(mon, ctx):
    """bags whose every hypothesis has a total log-score of -710 .. -725 (a long line under a strict LM): the raw weights are positive but below the smallest normal double"""
    cnm = ctx.cnm
    rng = np.random.default_rng([ctx.seed, 14, 725])
    for it in range(40):
        alpha = 'abc'
        hyps = []
        while len(hyps) < int(rng.integers(1, 4)):
            h = rs(rng, 1, 5, alpha)
            if h not in hyps:
                hyps.append(h)
        with_lm = bool(it % 2)
        boh = ctx.BOH()
        vis = [float(-rng.uniform(710, 720)) for _ in hyps]
        lm = [float(-rng.uniform(0, 5)) for _ in hyps] if with_lm else [None] * len(hyps)
        for h, v, l in zip(hyps, vis, lm):
            boh.add(h, v, l)
        mon.cur_desc = {'leg': 'faint bag', 'hyps': hyps, 'vis': vis, 'lm': lm}
        weights = [math.exp(v + (l or 0.0)) for v, l in zip(vis, lm)]
        if not all(0.0 < w < 2.3e-308 for w in weights):
            continue
        norm = cnm.produce_cn_from_boh(boh, visual_weight=1.0, lm_weight=1.0, normalize=True)
        mon.count('bags_of_subnormal_weights')
        mon.count('extra_evaluations')
        bad = [k for k, pos in enumerate(norm) if abs(sum(pos.values()) - 1.0) > 1e-6]
        if bad:
            mon.violation('normalised-sums-to-1', {'hyps': hyps, 'vis': vis, 'lm': lm, 'position': bad[0], 'weights': {repr(k): v for k, v in norm[bad[0]].items()},
                                                   'note': 'every raw weight is positive (about 1e-310); the position still has to be scaled to 1'})
            continue
        paths = cnm.sorted_cn_paths(norm)
        tot = float(sum(p for _, p in paths))
        if abs(tot - 1.0) > 1e-6:
            mon.violation('paths-product', {'hyps': hyps, 'vis': vis, 'probabilities_sum_to': tot})
        for h in hyps:
            if not readable(norm, h):
                mon.violation('new-readable', {'hyps': hyps, 'lost': h})


def extra(mon, ctx):
    """a network of 13 positions with 3 arcs each: 1 594 323 arc combinations, every one enumerated once, in non-increasing order, probabilities summing to 1"""
    if ctx.shard == (1 if ctx.nshards > 1 else 0):
        long_hypotheses(mon, ctx)
    if ctx.shard != 0:
        return
    faint_bags(mon, ctx)
    cnm = ctx.cnm
    rng = np.random.default_rng([ctx.seed, 14, 1313])
    cn = []
    for k in range(13):
        w = rng.uniform(0.1, 1.0, size=3)
        w = w / w.sum()
        cn.append({'a': float(w[0]), 'b': float(w[1]), None: float(w[2])})
    paths = cnm.sorted_cn_paths(cn)
    mon.count('million_path_networks')
    mon.count('extra_evaluations')
    mon.cur_desc = {'leg': '13 positions x 3 arcs'}
    tot = float(sum(p for _, p in paths))
    if len(paths) != 3 ** 13 or abs(tot - 1.0) > 1e-6:
        mon.violation('paths-product', {'n_got': len(paths), 'n_expected': 3 ** 13, 'probabilities_sum_to': tot})
    elif any(paths[k][1] < paths[k + 1][1] - 1e-15 for k in range(0, len(paths) - 1, 97)):
        mon.violation('paths-non-increasing', {'positions': 13})
