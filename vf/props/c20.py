"""C20 Cached transformer decoding equals recomputation, per line and per batch."""
import contextlib
import copy
import io

import numpy as np

ID = 'C20'
LEVEL = 'exploration'
TECHNIQUE = ('runtime monitoring: three-way differential on every batch (cached step-by-step decoding vs uncached recomputation vs the masked teacher-forced forward pass), '
             'per-line vs per-batch and fresh-copy vs history-laden model differentials, an online checker of the attention caches (recorder on CustomMultiheadAttention.infer: '
             'cached projections must equal projections recomputed from the recorded inputs), and a logical step bound for termination')
RULE = ('random-weight models built by the real build_net (tiny VGG-shaped front end) and loaded by the real TransformerEngineLineOCR constructor: decoder depth 1-3, heads 1-4, width 16-64, '
        'end-of-line bias varied so that lines end at different steps or hit the length cap; sequences of 3-4 batches with equal and different batch sizes (1-4) and widths (64/128/256) on one '
        'model instance; transcribe_batch and run_ocr. non-trivial = batch with >= 2 lines decoded on a model that has decoded a different batch before; distinct = hash of (model, batches) Batches of 256 / 512 / 258 lines; a 2048-px line decoded for more than 500 steps; every third alphabet contains U+200B as an ordinary character. Alphabets of 40000 / 70000 characters; run_ocr on floating-point batches.')
RULE += ' Round 6: The step-wise decoder interface with a harness-chosen prefix, look-ahead re-scoring and a final uncached step.'
RULE += ' Round 9: Teacher-forced logits of a decoder with very peaked self-attention do not depend on later symbols.'
RULE += ' Round 7: Step-wise decodes with a final normalisation layer and attention output; hypotheses re-ordered before an uncached step.'
ASSUMPTIONS = ['float32 logits compared within 2e-4 relative to the largest |logit| of the batch (largest relative difference on the unchanged tree is reported as observed maximum)',
               'steps at which the arg-max margin is below 1e-3 make later steps of that line incomparable (decoding may legitimately branch): skipped from there on',
               'termination is decided on decoding steps: at most W//4 + 2']
N = {'quick': 40, 'thorough': 3000}
CLASSES = ['default', 'deep', 'wide', 'eos_early', 'never_ends', 'single_head', 'run_ocr', 'default', 'batch_256', 'long_line', 'huge_alphabet']
REQUIRED = ['peaked_decoders_checked_for_future_independence', 'stepwise_decodes_with_a_final_norm', 'stepwise_decodes_with_reordered_hypotheses', 'stepwise_prefix_decodes', 'steps_scored_twice', 'uncached_step_after_cached_ones', 'models_with_more_than_32767_classes', 'run_ocr_float_batches', 'batches_of_256_or_more_lines', 'lines_decoded_for_more_than_500_steps', 'models_with_zero_width_space_in_the_alphabet', 'batches', 'cached_vs_uncached', 'cached_vs_teacher_forced', 'fresh_vs_history', 'single_vs_batch_lines', 'cache_calls_checked', 'cross_attention_cache_checked',
            'batches_after_different_batch', 'lines_hit_length_cap', 'lines_ended', 'run_ocr_batches', 'run_ocr_history_batches']
SHARDS = {'quick': 8, 'thorough': 16}
TIMEOUT = {'quick': 1200, 'thorough': 10800}
TOL_REL = 2e-4      # relative to the largest |logit| of the batch (float32 round-off through layer norms / softmax over up to 65 steps: the largest
                    # relative difference seen on 10 000 batches of the unchanged tree is 3.7e-5; a stale or mis-sliced cache shifts logits by O(0.1 .. 10))


def setup(ctx):
    import torch
    import torch.nn.functional as F
    from pero_ocr.ocr_engine import transformer as T
    from vf import stubs, hooks
    ctx.torch, ctx.T, ctx.stubs = torch, T, stubs
    ctx.cache_problems = []
    ctx.cache_calls = [0, 0]
    ctx.check_cache = True

    def mk(f):
        def w(self, query, seq_len, key, value, need_weights=True, return_attention=False):
            r = f(self, query, seq_len, key, value, need_weights=need_weights, return_attention=return_attention)
            if not ctx.check_cache:
                return r
            E = self.embed_dim
            with torch.no_grad():
                ctx.cache_calls[0] += 1
                if self.is_self_attention:
                    exp = F.linear(query[-1:], self.in_proj_weight, self.in_proj_bias)[0]
                    got = self.linear_cache[seq_len - 1]
                    if got.shape != exp.shape or float((got - exp).abs().max()) > 1e-4:
                        ctx.cache_problems.append({'attention': 'self', 'step': seq_len, 'what': 'projection of the newest position', 'max_abs_diff': float((got - exp).abs().max()) if got.shape == exp.shape else None})
                else:
                    ctx.cache_calls[1] += 1
                    exp = F.linear(key, self.in_proj_weight[E:, :], self.in_proj_bias[E:])
                    got = self.linear_cache[:key.shape[0], :, E:]
                    if got.shape != exp.shape or float((got - exp).abs().max()) > 1e-4:
                        ctx.cache_problems.append({'attention': 'encoder-decoder', 'step': seq_len, 'what': 'cached key/value projections of the encoder output of THIS batch',
                                                   'max_abs_diff': float((got - exp).abs().max()) if got.shape == exp.shape else None, 'shapes': [list(got.shape), list(exp.shape)]})
            return r
        return w
    hooks.wrap(T.CustomMultiheadAttention, 'infer', mk)


def gen(rng, i, ctx):
    cls = CLASSES[i % len(CLASSES)]
    dim = int(rng.choice([16, 32]))
    heads = int(rng.choice([1, 2, 4]))
    dec = int(rng.integers(1, 3))
    eos = float(rng.choice([-0.5, 0.5, 1.5]))
    if cls == 'deep':
        dec = 3
    elif cls == 'wide':
        dim = 64
    elif cls == 'eos_early':
        eos = 3.0
    elif cls == 'never_ends':
        eos = -6.0
    elif cls == 'single_head':
        heads = 1
    if cls == 'run_ocr':
        eos = 3.0
    batches = []
    nb = int(rng.integers(3, 5))
    for b in range(nb):
        n = int(rng.integers(1, 5))
        w = int(rng.choice([64, 128, 256] if cls != 'never_ends' else [64, 128]))
        if b > 0 and rng.random() < 0.35:
            n, w = batches[-1]['n'], batches[-1]['w']        # same shape as the previous batch: stale rows line up exactly
        batches.append({'n': n, 'w': w, 'seed': int(rng.integers(0, 1 << 30))})
    if cls == 'run_ocr':
        n0 = int(rng.integers(1, 4))
        ws = sorted([int(rng.choice([64, 96, 128, 192, 256, 300])) for _ in batches], reverse=True)
        for b_, w_ in zip(batches, ws):
            b_['n'], b_['w'] = n0, w_ // 4 * 4
    case = {'cls': cls, 'model_seed': int(rng.integers(0, 1 << 30)), 'dim': dim, 'heads': heads, 'dec': dec, 'eos_bias': eos, 'batches': batches}
    if cls == 'batch_256':
        # exactly 256 (512) lines decoded together, none of which ends before the length cap; then the same with a few more lines
        case.update(dim=16, dec=1, eos_bias=-6.0, batches=[{'n': int(rng.choice([256, 512])), 'w': 32, 'seed': int(rng.integers(0, 1 << 30))}, {'n': 258, 'w': 32, 'seed': int(rng.integers(0, 1 << 30))}])
    if cls == 'long_line':
        # one line wider than 2000 px that never emits the boundary symbol: more than 500 decoding steps, all key/value caches filled beyond row 500
        case.update(dim=16, dec=1, heads=int(rng.choice([1, 2])), eos_bias=-8.0, batches=[{'n': 1, 'w': int(rng.choice([2048, 2112])), 'seed': int(rng.integers(0, 1 << 30))}, {'n': 2, 'w': 64, 'seed': int(rng.integers(0, 1 << 30))}])
    if cls == 'huge_alphabet':
        # more classes than a 16-bit index can hold (a CJK-scale alphabet); random weights reach every class
        case.update(dim=16, dec=1, heads=1, batches=[{'n': int(rng.integers(1, 4)), 'w': int(rng.choice([64, 128])), 'seed': int(rng.integers(0, 1 << 30))} for _ in range(2)])
    # every third model has an alphabet that itself contains U+200B as an ordinary character (the boundary symbol is the class AFTER the alphabet, whatever the alphabet holds)
    case['chars'] = 'ab\u200bcdef' if case['model_seed'] % 3 == 0 else 'abcdef'
    if cls == 'huge_alphabet':
        case['chars'] = 'cjk-40000' if case['model_seed'] % 2 else 'cjk-70000'
    return case


def describe(case):
    return case


def maxdiff(a, b):
    n = min(a.shape[-2], b.shape[-2])
    return float((a[..., :n, :] - b[..., :n, :]).abs().max()) if n else 0.0


def first_ambiguous_step(l):
    """per line: first step whose arg-max margin is below 1e-3 (or number of steps)"""
    top2 = l.topk(2, dim=-1).values
    margin = (top2[..., 0] - top2[..., 1])
    out = []
    for row in margin:
        idx = (row < 1e-3).nonzero()
        out.append(int(idx[0]) if len(idx) else row.shape[0])
    return out


def alphabet(case):
    c = case.get('chars', 'abcdef')
    if c.startswith('cjk-'):
        n = int(c[4:])
        return ''.join(chr(0x3400 + k + (0x800 if 0x3400 + k >= 0xD800 else 0)) for k in range(n))       # (skipping the surrogate block)
    return c


def check(case, mon, ctx):
    torch = ctx.torch
    case = dict(case, chars=alphabet(case))
    if len(case['chars']) > 32767:
        mon.count('models_with_more_than_32767_classes')
    eng = ctx.stubs.make_transformer_engine(ctx.tmpdir + '/teng', case['model_seed'], H=32, dim=case['dim'], heads=case['heads'], dff=2 * case['dim'], enc=1, dec=case['dec'], eos_bias=case['eos_bias'], chars=case.get('chars', 'abcdef'))
    fresh = copy.deepcopy(eng.net)
    nsym = len(eng.characters)
    BND, IGN = len(case.get('chars', 'abcdef')), len(case.get('chars', 'abcdef')) + 1       # boundary / ignore classes: the two classes after the configured alphabet
    if '\u200b' in case.get('chars', ''):
        mon.count('models_with_zero_width_space_in_the_alphabet')
    prev_shape = None
    for bi, b in enumerate(case['batches']):
        rng = np.random.default_rng(b['seed'])
        x = rng.integers(0, 255, size=(b['n'], 3, 32, b['w']), dtype=np.uint8)
        w = {'batch_index': bi, 'lines': b['n'], 'width': b['w'], 'model': {k: case[k] for k in ('dim', 'heads', 'dec', 'eos_bias')}}
        with torch.no_grad(), contextlib.redirect_stdout(io.StringIO()):
            del ctx.cache_problems[:]
            ctx.cache_calls[0] = ctx.cache_calls[1] = 0
            ctx.check_cache = True
            try:
                o, l = eng.transcribe_batch(x.copy(), is_cached=True)
            except Exception as e:
                mon.violation('decoding-terminates-with-a-transcription', dict(w, exception=repr(e)[:300]))
                return
            problems = list(ctx.cache_problems)
            mon.count('cache_calls_checked', ctx.cache_calls[0])
            mon.count('cross_attention_cache_checked', ctx.cache_calls[1])
            ctx.check_cache = False
            o2, l2 = eng.transcribe_batch(x.copy(), is_cached=False)
            e2 = copy.copy(eng)
            e2.net = copy.deepcopy(fresh)
            o3, l3 = e2.transcribe_batch(x.copy(), is_cached=True)
            single_ids = list(range(b['n'])) if b['n'] <= 16 else list(range(6)) + list(range(b['n'] - 4, b['n']))
            singles = [e2.transcribe_batch(x[k:k + 1].copy(), is_cached=True) for k in single_ids]
            labels = torch.cat([torch.full((b['n'], 1), BND), l.argmax(-1)[:, :-1]], 1)
            full = eng.net(torch.from_numpy(x).float() / 255.0, labels).permute(1, 0, 2)
        if bi == 0 and labels.shape[1] >= 3 and not getattr(eng.net, 'training', False):
            # a decoder whose self-attention is very peaked (query / key projections 300 times the usual size): the teacher-forced logits of step t do not
            # depend on the symbols after t - step-by-step decoding, which the forward pass must equal, has not seen them yet. Same execution mode twice.
            peaked = copy.deepcopy(fresh)
            peaked.eval()
            dmod = peaked.trans_decoder.dim_model if hasattr(peaked.trans_decoder, 'dim_model') else case['dim']
            with torch.no_grad():
                for mod in peaked.modules():
                    if type(mod).__name__ == 'DecoderLayer':
                        mod.self_attn.in_proj_weight[:2 * dmod] *= 300.0
                xin = torch.from_numpy(x).float() / 255.0
                la = labels.clone()
                cut = int(labels.shape[1] // 2)
                lb = labels.clone()
                lb[:, cut + 1:] = (lb[:, cut + 1:] + 1 + (bi + cut) % max(1, nsym - 1)) % nsym
                fa = peaked(xin, la).permute(1, 0, 2)
                fb = peaked(xin, lb).permute(1, 0, 2)
            mon.count('peaked_decoders_checked_for_future_independence')
            d_future = maxdiff(fa[:, :cut + 1], fb[:, :cut + 1])
            mon.observe_max('future_dependence_abs', d_future)
            if bool((la != lb).any()) and d_future > 1e-3 * max(5.0, float(fa.abs().max())):
                mon.violation('cached-equals-teacher-forced', dict(w, note='teacher-forced logits of the first %d steps change by %.3g when only later symbols are changed (peaked self-attention): '
                              'step-by-step decoding cannot depend on symbols it has not produced yet' % (cut + 1, d_future)))
        mon.count('batches')
        mon.observe('transcriptions', [t_.tolist() for t_ in o])
        if prev_shape is not None and prev_shape != (b['n'], b['w']):
            mon.count('batches_after_different_batch')
            if b['n'] >= 2:
                mon.mark_nontrivial()
        elif prev_shape is not None:
            mon.count('batches_after_same_shape_batch')
        prev_shape = (b['n'], b['w'])
        steps = l.shape[1]
        TOL = TOL_REL * max(5.0, float(l.abs().max()))
        if steps > b['w'] // 4 + 2:
            mon.violation('decoding-terminates-within-the-length-cap', dict(w, steps=steps, cap=b['w'] // 4 + 2))
        for p in problems[:1]:
            mon.violation('caches-hold-projections-of-this-batch', dict(w, **p))
        amb = first_ambiguous_step(l)
        lim = min(amb)      # steps before the first near-tie of any line are comparable across execution modes
        d_unc = maxdiff(l[:, :lim], l2[:, :lim]); d_tf = maxdiff(l[:, :lim], full[:, :lim]); d_fresh = maxdiff(l[:, :lim], l3[:, :lim])
        scale = max(5.0, float(l.abs().max()))
        mon.observe_max('cached_vs_uncached_rel', d_unc / scale); mon.observe_max('cached_vs_teacher_forced_rel', d_tf / scale); mon.observe_max('fresh_vs_history_rel', d_fresh / scale)
        mon.count('cached_vs_uncached'); mon.count('cached_vs_teacher_forced'); mon.count('fresh_vs_history')
        if lim < steps:
            mon.skip_ambiguous('argmax-near-tie')
        if d_unc > TOL:
            mon.violation('cached-equals-recomputation', dict(w, max_abs_diff=d_unc, steps_compared=lim))
        if d_tf > TOL:
            mon.violation('cached-equals-teacher-forced-forward', dict(w, max_abs_diff=d_tf, steps_compared=lim))
        if d_fresh > TOL:
            mon.violation('independent-of-earlier-batches', dict(w, max_abs_diff=d_fresh, steps_compared=lim, previous_batches=[(q['n'], q['w']) for q in case['batches'][:bi]]))
        if b['n'] >= 256:
            mon.count('batches_of_256_or_more_lines')
        if steps > 500:
            mon.count('lines_decoded_for_more_than_500_steps')
        for k, (os_, ls_) in zip(single_ids, singles):
            n = min(ls_.shape[1], l.shape[1], amb[k])
            d = float((ls_[0, :n] - l[k, :n]).abs().max()) if n else 0.0
            mon.count('single_vs_batch_lines')
            mon.observe_max('single_vs_batch_rel', d / scale)
            if d > TOL:
                mon.violation('independent-of-batch-mates', dict(w, line=k, max_abs_diff=d, steps_compared=n))
            if amb[k] >= l.shape[1] and os_[0].tolist() != o[k].tolist():
                mon.violation('independent-of-batch-mates', dict(w, line=k, alone=os_[0].tolist(), in_batch=o[k].tolist()))
        for k in range(b['n']):
            t = o[k].tolist()
            if BND in t or IGN in t or any(s < 0 or s >= nsym for s in t):
                mon.violation('transcription-free-of-boundary-and-ignore-symbols', dict(w, line=k, transcription=t))
            # the transcription is the arg-max path up to the first boundary symbol
            path = l[k].argmax(-1).tolist()
            exp = []
            for s in path:
                if s == BND:
                    break
                if s != IGN:
                    exp.append(s)
            ended = BND in path
            mon.count('lines_ended' if ended else 'lines_hit_length_cap')
            if not ended:
                exp = exp[:steps - 1] if len(exp) > steps - 1 else exp
            if amb[k] >= steps and t != exp and t != exp[:len(t)]:
                mon.violation('transcription-is-the-arg-max-path', dict(w, line=k, transcription=t, argmax_path=path))
            if amb[k] >= steps and lim >= steps and o2[k].tolist() != t:
                mon.violation('cached-equals-recomputation', dict(w, line=k, cached=t, uncached=o2[k].tolist()))
        if case['cls'] == 'run_ocr':
            # history through run_ocr (pads every batch to 1088 px): this batch on the long-lived engine vs on a freshly loaded copy
            lines_h = np.ascontiguousarray(np.transpose(x, (0, 2, 3, 1)))
            with torch.no_grad(), contextlib.redirect_stdout(io.StringIO()):
                dec_h, lg_h = eng.run_ocr(lines_h.copy())
                e3 = ctx.stubs.make_transformer_engine(ctx.tmpdir + '/teng_fresh', case['model_seed'], H=32, dim=case['dim'], heads=case['heads'], dff=2 * case['dim'], enc=1, dec=case['dec'], eos_bias=case['eos_bias'], chars=case.get('chars', 'abcdef'))
                dec_f, lg_f = e3.run_ocr(lines_h.copy())
            mon.count('run_ocr_history_batches')
            nst = min(lg_h.shape[1], lg_f.shape[1], min(first_ambiguous_step(torch.from_numpy(lg_f))))
            dd = float(np.abs(lg_h[:, :nst] - lg_f[:, :nst]).max(initial=0))
            if dd > TOL_REL * max(5.0, float(np.abs(lg_f).max(initial=0))):
                mon.violation('independent-of-earlier-batches', dict(w, via='run_ocr on a long-lived engine vs a freshly loaded engine', max_abs_diff=dd, steps_compared=nst,
                              previous_batches=[(q['n'], q['w']) for q in case['batches'][:bi]]))
        if bi == 0 and b['n'] <= 8 and b['w'] <= 512:
            # the step-wise decoder interface driven by the harness with an arbitrary target prefix (not the arg-max path): every step's scores equal the masked forward pass
            # over that prefix - also when a step is scored twice with two candidate symbols (look-ahead) before going on, and when the last step is recomputed without caches after k cached ones
            srng = np.random.default_rng(b['seed'] + 7)
            S = int(min(12, b['w'] // 4))
            lab = srng.integers(0, BND, size=(S, b['n']))
            lab[0, :] = BND
            lab_t = torch.from_numpy(lab).long()
            # (round 7) a third of these decodes use a decoder with a final normalisation layer and ask some steps for the attention weights as well; when the batch has
            # several lines, the hypotheses are re-ordered in the middle (as a beam search does: cache_index_select with a non-identity, possibly repeating, index list)
            with_norm = b['seed'] % 3 == 0
            # (only the step recomputed without caches may follow the re-ordering: on the unchanged tree cached steps after it do not reproduce the forward pass - the
            # attention caches over the encoder output are indexed by target length there - and the recogniser itself never re-orders)
            t_reorder = S - 1 if (b['n'] >= 2 and S >= 4 and b['seed'] % 2 == 1) else None
            with torch.no_grad(), contextlib.redirect_stdout(io.StringIO()):
                ctx.check_cache = False
                if with_norm:
                    torch.manual_seed(b['seed'])
                    ln = torch.nn.LayerNorm(eng.net.dim_model)
                    ln.weight.normal_(1.0, 0.3)
                    ln.bias.normal_(0.0, 0.3)
                    eng.net.trans_decoder.norm = ln.eval()
                    mon.count('stepwise_decodes_with_a_final_norm')
                xf = torch.from_numpy(x).float() / 255.0
                ref_full = eng.net(xf, lab_t.permute(1, 0)).permute(1, 0, 2)            # lines, steps, classes
                enc = eng.net.encode(xf)
                embs = torch.empty((0, b['n'], enc.shape[2]))
                worst, where = 0.0, None
                for t in range(S):
                    if t_reorder is not None and t == t_reorder:
                        perm = srng.integers(0, b['n'], size=b['n'])
                        if (perm == np.arange(b['n'])).all():
                            perm = np.roll(perm, 1)
                        pt = torch.from_numpy(perm).long()
                        eng.net.trans_decoder.cache_index_select(pt, t)
                        embs, enc, xf = embs[:, pt], enc[:, pt], xf[pt]
                        lab_t = torch.cat((lab_t[:t][:, pt], lab_t[t:]))
                        ref_full = eng.net(xf, lab_t.permute(1, 0)).permute(1, 0, 2)
                        mon.count('stepwise_decodes_with_reordered_hypotheses')
                    if t > 0 and srng.random() < 0.3:
                        alt = (lab_t[t] + 1) % BND                                       # look-ahead: the same step with another candidate first
                        eng.net.trans_decoder.infer(eng.net.pos_encoder(torch.cat((embs, eng.net.dec_embeder(alt).unsqueeze(0)))), enc, is_cached=True)
                        mon.count('steps_scored_twice')
                    embs = torch.cat((embs, eng.net.dec_embeder(lab_t[t]).unsqueeze(0)))
                    # (a step recomputed without caches does not fill them, so only the LAST step may be of the other kind: k cached steps, then step k+1 from scratch)
                    cached = not (t == S - 1 and t > 1 and (b['seed'] % 2 == 0 or t_reorder is not None))
                    if not cached:
                        mon.count('uncached_step_after_cached_ones')
                    want_att = bool(with_norm and cached and srng.random() < 0.5)          # (attention weights are only available from cached steps)
                    res_t = eng.net.trans_decoder.infer(eng.net.pos_encoder(embs), enc, is_cached=cached, return_attention=want_att)
                    out_t = eng.net.dec_out_proj(res_t[0] if want_att else res_t)
                    d_ = float((out_t - ref_full[:, t]).abs().max())
                    if d_ > worst:
                        worst, where = d_, (t, cached)
            if with_norm:
                eng.net.trans_decoder.norm = None
            mon.count('stepwise_prefix_decodes')
            mon.observe_max('stepwise_vs_forward_rel', worst / max(5.0, float(ref_full.abs().max())))
            if worst > TOL_REL * max(5.0, float(ref_full.abs().max())):
                mon.violation('cached-equals-teacher-forced-forward', dict(w, via='step-wise interface with a harness-chosen prefix, look-ahead re-scoring and a final step recomputed without caches', max_abs_diff=worst,
                              step=where[0], step_was_cached=where[1], steps=S, final_norm=with_norm, hypotheses_reordered_before_step=t_reorder))
        if case['cls'] == 'run_ocr' and b['w'] < 1088:
            # run_ocr on a floating-point batch with non-integer pixel values (an image that went through interpolation): the scores are those of the
            # same pixels padded to 1088 columns by the harness
            xf = (x.astype(np.float32) * 0.731 + 0.37)
            lines_f = np.ascontiguousarray(np.transpose(xf, (0, 2, 3, 1)))
            pad = np.zeros((xf.shape[0], 3, 32, 1088), dtype=np.float32)
            s0 = (1088 - xf.shape[3]) // 2
            pad[:, :, :, s0:s0 + xf.shape[3]] = xf
            with torch.no_grad(), contextlib.redirect_stdout(io.StringIO()):
                dec_r, lg_r = eng.run_ocr(lines_f.copy())
                _, lg_p = eng.transcribe_batch(pad.copy(), is_cached=True)
            lg_p = lg_p.cpu().numpy()
            mon.count('run_ocr_float_batches')
            nst = min(lg_r.shape[1], lg_p.shape[1], min(first_ambiguous_step(torch.from_numpy(lg_p))))
            dd = float(np.abs(lg_r[:, :nst] - lg_p[:, :nst]).max(initial=0))
            if dd > TOL_REL * max(5.0, float(np.abs(lg_p).max(initial=0))):
                mon.violation('cached-equals-teacher-forced-forward', dict(w, via='run_ocr on a float batch vs transcribe_batch on the same pixels padded by the harness', max_abs_diff=dd, steps_compared=nst))
        if case['cls'] == 'run_ocr' and bi == 0:
            lines = np.ascontiguousarray(np.transpose(x, (0, 2, 3, 1)))
            with torch.no_grad(), contextlib.redirect_stdout(io.StringIO()):
                dec, lg = eng.run_ocr(lines.copy())
                dec_b, lg_b = eng.run_ocr(lines.copy())
                singles = [eng.run_ocr(lines[k:k + 1].copy()) for k in range(b['n'])]
            mon.count('run_ocr_batches')
            if dec != dec_b or float(np.abs(lg - lg_b).max()) > TOL_REL * max(5.0, float(np.abs(lg).max())):
                mon.violation('independent-of-earlier-batches', dict(w, via='run_ocr twice on the same batch', first=dec, second=dec_b))
            amb2 = first_ambiguous_step(torch.from_numpy(lg))
            for k, (d1, l1) in enumerate(singles):
                n = min(l1.shape[1], lg.shape[1], amb2[k])
                if n and float(np.abs(l1[0, :n] - lg[k, :n]).max()) > TOL_REL * max(5.0, float(np.abs(lg).max())):
                    mon.violation('independent-of-batch-mates', dict(w, via='run_ocr', line=k))
                if amb2[k] >= lg.shape[1] and d1[0] != dec[k]:
                    mon.violation('independent-of-batch-mates', dict(w, via='run_ocr', line=k, alone=d1[0], in_batch=dec[k]))
            for t in dec:
                if '​' in t and '​' not in case.get('chars', ''):
                    mon.violation('transcription-free-of-boundary-and-ignore-symbols', dict(w, via='run_ocr', transcription=t))
            if lg.shape[1] > 1088 // 4 + 2:
                mon.violation('decoding-terminates-within-the-length-cap', dict(w, via='run_ocr', steps=int(lg.shape[1])))
