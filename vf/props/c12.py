"""C12 Region sorting only permutes regions and always terminates."""
import configparser
import sys

import numpy as np

ID = 'C12'
LEVEL = 'exploration'
TECHNIQUE = ('runtime monitoring: before/after snapshot oracle (permutation of the same regions, content intact, shapely shape equality) and a logical-step '
             'budget enforced by a sys.settrace line counter restricted to the sorter modules (bounded progress instead of wall-clock time)')
RULE = ('pages with 0-14 regions with unique ids: grids, columns, mutually overlapping in both axes (forces the recursive fallback), identical boxes, zero-width / '
        'zero-height boxes, random polygons, nested; lines horizontal and slanted (non-zero de-skew); both sorters; FakeIntersectionParameter 0-0.5; '
        'ImageWidthDenominator 1-1500. non-trivial = at least 2 regions; distinct = hash of the page description and sorter parameters Lines without ids or with one id per region; one region given by one or two points (no skew). Pages of 1050 / 1200 mutually overlapping regions; region types; layouts without a page size.')
RULE += ' Round 6: Spiral pages of 40-64 nested regions; long-lived sorters whose first page is a thumbnail; scans of different widths.'
RULE += ' Round 9: Skewed pages with an int32 outline holding the bytes of another region\'s int64 outline.'
RULE += ' Round 7: The region and line objects handed in keep their geometry whether or not the page returns them.'
ASSUMPTIONS = ['regions have unique ids; outlines have at least 3 points, except in the class line_outline (one region given by one or two points, only on pages without skew: on a skewed page the de-skew rotation builds a shapely polygon from every outline, which is impossible for fewer than three points - not a polygon in the sense of the quantifier)', 'the naive sorter is driven with eps >= 1 (DBSCAN rejects eps = 0)',
               'termination is decided as bounded progress: traced line events inside the sorter modules stay below STEP_BUDGET(n); a hang inside a binary dependency would show as the wall-clock watchdog (inconclusive)',
               'geometry tolerance: boundaries within 1e-6 px of each other (Hausdorff distance) and equal area (de-skew rotates there and back in float64); GEOS overlay operations are not used because they are unreliable for nearly coincident polygons']
N = {'quick': 1500, 'thorough': 60000}
CLASSES = ['grid', 'columns', 'overlap', 'identical', 'degenerate', 'poly', 'nested', 'empty_or_single', 'overlap_slanted', 'grid_slanted', 'line_outline', 'many_overlapping', 'spiral']
REQUIRED = ['pages_with_two_outlines_of_identical_bytes', 'long_lived_sorter_reused', 'spiral_pages', 'layouts_without_a_page_size', 'pages_of_more_than_1000_regions', 'pages_of_marginalia_only', 'line_ids:none', 'line_ids:repeated', 'pages_with_a_one_or_two_point_outline', 'smart_runs', 'naive_runs', 'deskewed_pages', 'decouple_calls', 'regions_compared']


def STEP_BUDGET(n):
    # calibrated on the unchanged tree: the largest count observed for n <= 14 regions was about 60 * n^2 + 400 line events; 50x margin
    return 50 * (60 * n * n + 400) + 20000


class BudgetExceeded(BaseException):
    pass


def spiral(k, size=60000.0, frac=0.2, gap=0.03):
    """k regions winding inwards: a header, a left column, a footer and a right column are peeled off the remaining box in turn, each taking a fifth of it
    (a deeply nested page: every division splits off exactly one region)"""
    x0, y0, x1, y1 = 0.0, 0.0, size, size
    out = []
    for j in range(k - 1):
        h, w = (y1 - y0) * frac, (x1 - x0) * frac
        gh, gw = (y1 - y0) * gap, (x1 - x0) * gap
        if j % 4 == 0:
            out.append([[x0, y0], [x1, y0], [x1, y0 + h], [x0, y0 + h]]); y0 += h + gh
        elif j % 4 == 1:
            out.append([[x0, y0], [x0 + w, y0], [x0 + w, y1], [x0, y1]]); x0 += w + gw
        elif j % 4 == 2:
            out.append([[x0, y1 - h], [x1, y1 - h], [x1, y1], [x0, y1]]); y1 -= h + gh
        else:
            out.append([[x1 - w, y0], [x1, y0], [x1, y1], [x1 - w, y1]]); x1 -= w + gw
    out.append([[x0, y0], [x1, y0], [x1, y1], [x0, y1]])
    return out


def setup(ctx):
    from pero_ocr.core import layout
    from pero_ocr.layout_engines import smart_sorter, naive_sorter
    from vf import hooks
    ctx.layout, ctx.ss, ctx.ns = layout, smart_sorter, naive_sorter
    ctx.files = {smart_sorter.__file__, naive_sorter.__file__}
    ctx.decouples = [0]
    ctx.long_lived, ctx.imgs = {}, {}

    def mk(f):
        def w(self):
            ctx.decouples[0] += 1
            return f(self)
        return w
    hooks.wrap(smart_sorter.CoupledRegions, 'decouple', mk)


def box(x0, y0, w, h):
    return [[x0, y0], [x0 + w, y0], [x0 + w, y0 + h], [x0, y0 + h]]


def gen(rng, i, ctx):
    cls = CLASSES[i % len(CLASSES)]
    n = int(rng.integers(0, 15))
    if cls == 'empty_or_single':
        n = int(rng.integers(0, 2))
    slanted = (cls.endswith('slanted') or rng.random() < 0.2) and cls != 'line_outline'
    if cls == 'many_overlapping':
        # more than a thousand regions that all overlap each other (a page of stacked stamps / table cells); one in 24, otherwise 20-60 of them
        n = int(rng.choice([1050, 1200])) if (i // len(CLASSES)) % 24 == 0 else int(rng.integers(20, 60))
        slanted = False
    sp = spiral(int(rng.integers(40, 64))) if cls == 'spiral' else None
    if sp is not None:
        n, slanted = len(sp), False
    regs = []
    for k in range(n):
        if cls == 'spiral':
            poly = sp[k]
        elif cls == 'many_overlapping':
            poly = box(10 + k, 10 + k, 1200, 1500)
        elif cls.startswith('grid'):
            c, r = k % 3, k // 3
            poly = box(100 + c * 400 + int(rng.integers(0, 20)), 100 + r * 380 + int(rng.integers(0, 20)), 350, 330)
        elif cls == 'columns':
            c = k % 2
            poly = box(100 + c * 700, 100 + (k // 2) * 250, 600, int(rng.integers(100, 240)))
        elif cls == 'identical':
            poly = box(100, 100, 400, 400)
        elif cls == 'degenerate':
            poly = box(int(rng.integers(0, 800)), int(rng.integers(0, 1200)), int(rng.choice([0, rng.integers(1, 500)])), int(rng.choice([0, rng.integers(1, 500)])))
        elif cls == 'poly':
            m = int(rng.integers(3, 9))
            ang = np.sort(rng.uniform(0, 2 * np.pi, m))
            cx, cy, rx, ry = rng.uniform(200, 1200), rng.uniform(200, 1700), rng.uniform(30, 400), rng.uniform(30, 400)
            poly = np.stack([cx + rx * np.cos(ang), cy + ry * np.sin(ang)], 1).tolist()
        elif cls == 'nested':
            d = 40 * k
            poly = box(50 + d, 50 + d, max(20, 1300 - 2 * d), max(20, 1800 - 2 * d))
        else:  # overlap
            poly = box(int(rng.integers(0, 800)), int(rng.integers(0, 1200)), int(rng.integers(200, 900)), int(rng.integers(200, 900)))
        lines = []
        xs = [p[0] for p in poly]; ys = [p[1] for p in poly]
        x0, y0, w = min(xs), min(ys), max(10, max(xs) - min(xs))
        slope = float(rng.choice([0.03, 0.08, -0.1, -0.04])) if slanted else 0.0
        for l in range(int(rng.integers(0, 4))):
            by = y0 + 20 + l * 30
            lines.append({'id': 'r%03d-l%d' % (k, l), 'baseline': [[x0 + 5, by], [x0 + w - 5, by + slope * w]],
                          'polygon': [[x0 + 5, by - 15], [x0 + w - 5, by - 15 + slope * w], [x0 + w - 5, by + 5 + slope * w], [x0 + 5, by + 5]]})
        regs.append({'id': 'r%03d' % k, 'polygon': poly, 'text': 'T%d' % k, 'lines': lines if cls != 'many_overlapping' else []})
    if cls == 'line_outline' and n >= 2:
        # one region is a rule / a stray mark given by its two end points or by one point (valid PAGE XML Coords); no skew on these pages
        k = int(rng.integers(0, n))
        x, y = int(rng.integers(50, 1200)), int(rng.integers(50, 1800))
        regs[k]['polygon'] = [[x, y], [x + int(rng.integers(0, 300)), y + int(rng.integers(0, 40))]] if rng.random() < 0.7 else [[x, y]]
        regs[k]['lines'] = []
    # region types: most regions have none; running heads, footers and page numbers occur, also on pages with (almost) nothing else
    tmode = int(rng.integers(0, 4))
    for r in regs:
        r['type'] = None if tmode == 0 else str(rng.choice(['paragraph', 'heading', 'header', 'footer', 'page-number'] if tmode == 1 else ['header', 'footer', 'page-number']))
    if tmode == 3 and regs:
        regs[0]['type'] = 'paragraph'
    # drawn last: how the lines are identified - unique ids, no ids at all (lines imported from ALTO have none), or the same id for all lines of a region
    scheme = str(rng.choice(['unique', 'unique', 'none', 'repeated']))
    for r in regs:
        for l in r['lines']:
            l['id'] = l['id'] if scheme == 'unique' else (None if scheme == 'none' else 'line')
    order = list(range(n))
    rng.shuffle(order)
    regs = [regs[k] for k in order]
    case = {'cls': cls, 'regions': regs, 'fake_intersection': float(rng.choice([0.0, 0.05, 0.1, 0.3, 0.5])) if cls != 'spiral' else float(rng.choice([0.0, 0.05])),
            'width_denominator': int(rng.choice([1, 2, 10, 100, 1500])), 'int_coords': bool(rng.random() < 0.3), 'line_ids': scheme}
    if slanted and case['int_coords'] and 2 <= len(regs) <= 60 and any(r['lines'] for r in regs):
        # a region whose int32 outline holds the very bytes of another region's int64 outline (x, 0 pairs: a sliver along the top edge) - a different outline
        src = regs[0]
        flat = np.array(src['polygon']).astype(np.int64)
        twin32 = np.frombuffer(flat.tobytes(), dtype=np.int32).reshape(-1, 2)
        case['regions'] = list(regs) + [{'id': 'twin_bytes', 'polygon': twin32.tolist(), 'dtype': 'int32', 'text': '', 'lines': [], 'type': src.get('type')}]
        case['byte_twin_of'] = src['id']
    return case


def describe(case):
    return case


def build(L, case):
    # a layout whose page size was never set (the constructor default) or is stale: the sorters are given the image
    pl = L.PageLayout(id='p', page_size=(2000, 1500)) if len(case['regions']) % 4 else (L.PageLayout(id='p') if len(case['regions']) % 8 else L.PageLayout(id='p', page_size=(3, 2)))
    dt = np.int64 if case['int_coords'] else np.float64
    for r in case['regions']:
        reg = L.RegionLayout(r['id'], np.array(r['polygon']).astype(np.int32 if r.get('dtype') == 'int32' else dt), region_type=r.get('type'))
        reg.transcription = r['text']
        for l in r['lines']:
            reg.lines.append(L.TextLine(id=l['id'], baseline=np.array(l['baseline'], dtype=np.float64), polygon=np.array(l['polygon'], dtype=np.float64),
                                        heights=[15, 5], transcription='t %s %d' % (l['id'], len(reg.lines))))
        pl.regions.append(reg)
    return pl


def same_shape(a, b, line=False):
    from vf.genlib import same_polygon_shape
    a, b = np.asarray(a, dtype=np.float64), np.asarray(b, dtype=np.float64)
    if line or len(a) < 3 or len(b) < 3:            # a baseline, or an outline of one or two points: the same points
        return a.shape == b.shape and np.abs(a - b).max() <= 1e-6
    return same_polygon_shape(a, b, 1e-6)


def run_sorter(sorter, img, pl, ctx, budget):
    count = [0]
    files = ctx.files

    def tracer(frame, event, arg):
        if frame.f_code.co_filename not in files:
            return None
        def local(frame, event, arg):
            if event == 'line':
                count[0] += 1
                if count[0] > budget:
                    raise BudgetExceeded()
            return local
        return local
    sys.settrace(tracer)
    try:
        out = sorter.process_page(img, pl)
        return 'ok', out, count[0]
    except BudgetExceeded:
        return 'budget', None, count[0]
    except RecursionError as e:
        return 'recursion', repr(e)[:100], count[0]
    except Exception as e:
        return 'exception', repr(e)[:300], count[0]
    finally:
        sys.settrace(None)


def check(case, mon, ctx):
    L = ctx.layout
    cfg = configparser.ConfigParser()
    cfg.read_dict({'S': {'FakeIntersectionParameter': str(case['fake_intersection']), 'ImageWidthDenominator': str(case['width_denominator'])}})
    # scans of different sizes within one run (the naive sorter derives its clustering distance from the image width)
    wimg = [1500, 3100, 2200][len(case['regions']) % 3]
    wimg = max(wimg, 2 * case['width_denominator'])
    img = ctx.imgs.setdefault(wimg, np.zeros((2000, wimg, 3), np.uint8))
    n = len(case['regions'])
    if n >= 2:
        mon.mark_nontrivial()
    if case.get('byte_twin_of'):
        mon.count('pages_with_two_outlines_of_identical_bytes')
    for name in ('smart', 'naive'):
        pl = build(L, case)
        before = {r.id: (r, r.transcription, [(l, l.id, l.transcription, np.array(l.baseline, copy=True), np.array(l.polygon, copy=True)) for l in r.lines],
                         np.array(r.polygon, copy=True)) for r in pl.regions}
        sorter = ctx.ss.SmartRegionSorter(cfg['S']) if name == 'smart' else ctx.ns.NaiveRegionSorter(cfg['S'])
        ctx.decouples[0] = 0
        if name == 'smart' and n >= 2:
            rot = ctx.ss.SmartRegionSorter.get_rotation(max(*pl.regions, key=lambda reg: len(reg.lines)).lines)
            if rot != 0:
                mon.count('deskewed_pages')
        status, out, steps = run_sorter(sorter, img, pl, ctx, STEP_BUDGET(n))
        mon.count(name + '_runs')
        # history: a sorter object that has sorted other pages (of other sizes) before gives the same order as the fresh one
        key = (name, case['fake_intersection'], case['width_denominator'])
        old_sorter = ctx.long_lived.get(key)
        if old_sorter is None:
            old_sorter = ctx.long_lived[key] = ctx.ss.SmartRegionSorter(cfg['S']) if name == 'smart' else ctx.ns.NaiveRegionSorter(cfg['S'])
            # its first page is a thumbnail narrower than the width denominator (the naive sorter refuses it, clustering distance 0); whatever happens there,
            # the following pages are ordinary ones
            thumb = L.PageLayout(id='t', page_size=(40, 30))
            thumb.regions = [L.RegionLayout('a', np.array([[1.0, 1.0], [9.0, 1.0], [9.0, 9.0], [1.0, 9.0]])), L.RegionLayout('b', np.array([[12.0, 1.0], [20.0, 1.0], [20.0, 9.0], [12.0, 9.0]]))]
            run_sorter(old_sorter, np.zeros((40, max(1, case['width_denominator'] - 1), 3), np.uint8), thumb, ctx, STEP_BUDGET(2))
        else:
            mon.count('long_lived_sorter_reused')
        st2, out2, _ = run_sorter(old_sorter, img, build(L, case), ctx, STEP_BUDGET(n))
        if status == 'ok' and (st2 != 'ok' or [r.id for r in out2.regions] != [r.id for r in out.regions]):
            mon.violation('permutation-of-input-regions', {'sorter': name, 'n_regions': n, 'note': 'a sorter that has sorted other pages before gives another result than a fresh one',
                          'image_width': wimg, 'long_lived': st2 if st2 != 'ok' else [r.id for r in out2.regions][:8], 'fresh': [r.id for r in out.regions][:8]}, mechanism='sorter-history')
        mon.count('decouple_calls', ctx.decouples[0])
        mon.observe_max('line_events_%s_n%02d' % (name, n), steps)
        mon.observe_max('line_events_over_budget_ratio', steps / STEP_BUDGET(n))
        w = {'sorter': name, 'n_regions': n}
        if status == 'budget':
            mon.violation('terminates', dict(w, note='logical-step budget exhausted', budget=STEP_BUDGET(n)))
            continue
        if status == 'recursion':
            mon.violation('terminates', dict(w, note='RecursionError', detail=out))
            continue
        if status == 'exception':
            mech = None
            mon.violation('no-exception', dict(w, exception=out), mechanism=mech)
            continue
        ids = [r.id for r in out.regions]
        mon.observe('order ' + name, ids)
        mon.count('line_ids:' + case.get('line_ids', 'unique'))
        if n > 1000:
            mon.count('pages_of_more_than_1000_regions')
        if case['cls'] == 'spiral':
            mon.count('spiral_pages')
        if tuple(pl.page_size) != (2000, 1500):
            mon.count('layouts_without_a_page_size')
        if n >= 2 and sum(1 for r in case['regions'] if r.get('type') not in ('header', 'footer', 'page-number')) <= 1:
            mon.count('pages_of_marginalia_only')
        if any(len(r['polygon']) < 3 for r in case['regions']):
            mon.count('pages_with_a_one_or_two_point_outline')
        if sorted(ids) != sorted(before) or len(ids) != len(before):
            mon.violation('permutation-of-input-regions', dict(w, got=ids, expected=sorted(before)))
            continue
        for r in out.regions:
            r0, text, lines, poly = before[r.id]
            mon.count('regions_compared')
            if r.transcription != text or r.region_type != r0.region_type:
                mon.violation('region-content-intact', dict(w, region=r.id, field='text'))
            if [l.id for l in r.lines] != [x[1] for x in lines]:
                mon.violation('region-content-intact', dict(w, region=r.id, field='lines', got=[l.id for l in r.lines]))
                continue
            if not same_shape(r.polygon, poly):
                mon.violation('geometry-unchanged', dict(w, region=r.id, got=np.asarray(r.polygon), expected=poly))
            # the region and line objects that were handed in (the caller may still hold them) describe the same shapes as before, whether or not the page returns them
            mon.count('input_objects_rechecked')
            if not same_shape(r0.polygon, poly) or any(not same_shape(l0.baseline, lbase, line=True) or not same_shape(l0.polygon, lpoly) for (l0, lid, ltext, lbase, lpoly) in lines):
                mon.violation('geometry-unchanged', dict(w, region=r.id, note='the region object that was handed in (%s the one the page now holds) no longer has its geometry' % ('it is' if r is r0 else 'it is not'),
                                                         got=np.asarray(r0.polygon), expected=poly))
            for l, (l0, lid, ltext, lbase, lpoly) in zip(r.lines, lines):
                if l.transcription != ltext or list(l.heights) != [15, 5]:
                    mon.violation('region-content-intact', dict(w, line=lid, field='transcription/heights'))
                if not same_shape(l.baseline, lbase, line=True):
                    mon.violation('geometry-unchanged', dict(w, line=lid, what='baseline', got=np.asarray(l.baseline), expected=lbase))
                if not same_shape(l.polygon, lpoly):
                    mon.violation('geometry-unchanged', dict(w, line=lid, what='polygon', got=np.asarray(l.polygon), expected=lpoly))
