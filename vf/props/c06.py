"""C06 ALTO export never loses, reorders or invents text and never fails."""
import collections
import re

import numpy as np
from scipy import sparse
import lxml.etree as ET

ID = 'C06'
LEVEL = 'exploration'
TECHNIQUE = ('runtime monitoring: the real exporter is run on generated recognised pages and the produced XML is parsed and compared with expectations computed '
             'from the layout alone (word sequence, order, integrality, print space / margins, confidence filter, re-import); recorder on align_text tells which '
             'branch each line took; permutation / involution oracle on the Arabic order conversion')
RULE = ('pages of 1-4 blocks (rectangles / polygons inside the page) x 1-5 lines with sane geometry; transcriptions of 1-6 words over the charset and outside it, Latin and '
        'Arabic words mixed; separators single / double / leading / trailing U+0020, NBSP, tab, thin space, ideographic space and mixtures; posteriors peaky, noisy, '
        'diffuse, too short to align, absent, unknown frame window, transformer-shaped; min_line_confidence in {0, 0.3, 0.99}; for the order conversion strings of '
        'tokens {Arabic word, Latin word, number, delimiter, Arabic delimiter, blank, bracket}. non-trivial = page with a multi-word line; distinct = hash of the page description Astral-plane and entity-like words; padded logit matrices whose window starts after frame 0; lines of more than 1000 frames. NFD words; line outlines without extent; confidences left by an earlier stage.')
RULE += ' Round 6: Arabic lines in presentation forms only, script decided by the harness.'
RULE += ' Round 7: A reading order other than the held region order; line indices other than the held line order.'
RULE += ' Round 8: A line over a two-letter alphabet; directional marks at script boundaries.'
ASSUMPTIONS = ['"recognised page": every line has baseline (2 px .. block width, slope within +-10 deg), polygon, positive heights, and lies inside its block; blocks lie inside the page',
               'logits and character table are both present or both absent', 'expected words on Arabic lines use the repository\'s own order conversion (itself checked for permutation and involution)',
               'ALTO TextLine elements carry no id: lines are matched by order within their block']
N = {'quick': 800, 'thorough': 40000}
CLASSES = ['page', 'page', 'page_whitespace', 'page_arabic', 'page_conf', 'order_conversion', 'page_short_lines', 'page_long_lines']
REQUIRED = ['pages_with_a_line_over_a_two_letter_alphabet', 'pages_with_a_reading_order_other_than_the_held_order', 'blocks_with_line_indices_other_than_the_held_order', 'arabic_lines_in_presentation_forms_only', 'decomposed_lines', 'lines_with_an_outline_without_extent', 'aligned_lines_over_1000_frames', 'aligned_lines_with_offset_window', 'astral_lines', 'entity_like_lines', 'short_baseline_lines', 'exports', 'lines_expected', 'aligned_lines', 'fallback_lines', 'words_compared', 'nonascii_space_lines', 'arabic_lines', 'arabic_fallback_lines', 'dropped_lines',
            'printspace_checked', 'reimports', 'conversions_checked']
NS = '{http://www.loc.gov/standards/alto/ns-v2#}'
CH = list("abcdefgh.,-") + [' '] + list('ابتثج')
AR = 'ابتثجحخ'
SEPS = {'single': ' ', 'double': '  ', 'nbsp': ' ', 'tab': '\t', 'thin': ' ', 'ideo': '　'}


def setup(ctx):
    from pero_ocr.core import layout, force_alignment, confidence_estimation as ce
    from pero_ocr.core.arabic_helper import ArabicHelper
    from vf import hooks
    ctx.L, ctx.ce = layout, ce
    ctx.ah = ArabicHelper()
    ctx.log = []
    hooks.wrap(force_alignment, 'align_text', hooks.recorder(ctx.log, 'align_text'))


def mk_logits(rng, text, chars, mode):
    C = len(chars) + 1
    blank = C - 1
    idx = [chars.index(c) if c in chars else 0 for c in text]
    fpc = 3
    if mode == 'short':
        T = max(1, len(text) // 2)
    elif mode == 'transformer':
        T = len(text)
    else:
        T = len(text) * fpc + 4
    lg = np.full((T, C), -12.0)
    if mode in ('peaky', 'short', 'noisy'):
        lg[:, blank] = 8.0
        for i, ci in enumerate(idx):
            t = 2 + i * fpc
            if t < T:
                lg[t, ci] = 12.0
                lg[t, blank] = -3
        if mode == 'noisy':
            lg = lg + rng.normal(size=lg.shape) * 4.0
    elif mode == 'transformer':
        lg = rng.normal(size=(T, C)) * 2
        lg[np.arange(T), idx] += 6
    elif mode == 'diffuse':
        lg = rng.uniform(-2, 2, size=(T, C))
    p = np.exp(lg - np.logaddexp.reduce(lg, axis=1)[:, None])
    lg = lg.copy()
    lg[lg == 0] = 0.01
    lg[p < 1e-4] = 0
    return sparse.csc_matrix(lg), T


def gen(rng, i, ctx):
    cls = CLASSES[i % len(CLASSES)]
    if cls == 'order_conversion':
        out = []
        for _ in range(60):
            toks = []
            for _ in range(int(rng.integers(0, 9))):
                k = str(rng.choice(['ar', 'ar', 'la', 'nu', 'de', 'sp', 'ade', 'ot']))
                if k == 'ar':
                    toks.append(''.join(AR[int(x)] for x in rng.integers(0, len(AR), size=int(rng.integers(1, 5)))))
                elif k == 'la':
                    toks.append(''.join('abcXYZ'[int(x)] for x in rng.integers(0, 6, size=int(rng.integers(1, 5)))))
                elif k == 'nu':
                    toks.append(''.join('0123'[int(x)] for x in rng.integers(0, 4, size=int(rng.integers(1, 4)))))
                elif k == 'de':
                    toks.append(str(rng.choice([' ', ',', '-', '.', '"', ':'])))
                elif k == 'sp':
                    toks.append(' ')
                elif k == 'ade':
                    toks.append(str(rng.choice(['،', 'ً', 'ّ', '»'])))
                else:
                    toks.append(str(rng.choice(['(', ')', '%', '/', '@'])))
            out.append(''.join(toks))
        # (round 8) invisible directional marks (LRM, RLM, ALM) at the boundary between an Arabic and a Latin word
        for _ in range(12):
            ar = ''.join(AR[int(x)] for x in rng.integers(0, len(AR), size=int(rng.integers(1, 5))))
            la = ''.join('abcXYZ'[int(x)] for x in rng.integers(0, 6, size=int(rng.integers(1, 5))))
            mk_ = str(rng.choice(['\u200e', '\u200f', '\u061c']))
            out.append(str(rng.choice([ar + mk_ + la, la + mk_ + ar, ar + ' ' + mk_ + la + ' ' + ar, la + mk_ + ' ' + ar + mk_, mk_ + ar + ' ' + la])))
        return {'cls': cls, 'strings': out}
    H, W = int(rng.integers(500, 1400)), int(rng.integers(700, 1700))
    blocks = []
    for r in range(int(rng.integers(1, 5))):
        x0 = int(rng.integers(0, W // 3)); y0 = int(rng.integers(0, H // 3))
        x1 = int(rng.integers(x0 + 250, W)); y1 = int(rng.integers(y0 + 150, H))
        poly = [[x0, y0], [x1, y0], [x1, y1], [x0, y1]]
        if rng.random() < 0.3:
            poly = [[x0, y0], [(x0 + x1) // 2, y0 + 5], [x1, y0], [x1, y1], [(x0 + x1) // 2, y1 - 5], [x0, y1]]
        lines = []
        for l in range(int(rng.integers(1, 6))):
            by = int(rng.integers(y0 + 45, y1 - 15))
            bl = [[x0 + 5, by], [(x0 + x1) // 2, by + int(rng.integers(-3, 4))], [x1 - 5, by + int(rng.integers(-5, 6))]]
            if cls == 'page_short_lines' and rng.random() < 0.6:
                # a very short baseline (a stray mark recognised as a line): 2-12 px, two points
                xs = x0 + 5 + int(rng.integers(0, 100))
                bl = [[xs, by], [xs + int(rng.integers(2, 13)), by + int(rng.integers(-1, 2))]]
            h = [float(rng.uniform(10, 30)), float(rng.uniform(3, 10))]
            pg = [[x0 + 5, by - h[0]], [x1 - 5, by - h[0]], [x1 - 5, by + h[1]], [x0 + 5, by + h[1]]]
            if cls == 'page_short_lines' and rng.random() < 0.3:
                # an outline without extent after truncation to whole pixels: thinner than a pixel, flat on the baseline, or a single point
                pg = [[[x0 + 5, by], [x1 - 5, by], [x1 - 5, by + 0.4], [x0 + 5, by + 0.4]], [[x0 + 5, by], [x1 - 5, by]], [[x0 + 7, by]],
                      [[x0 + 5, by - 9], [x0 + 5.3, by - 9], [x0 + 5.3, by + 4], [x0 + 5, by + 4]]][int(rng.integers(0, 4))]
            script = 'arabic' if cls == 'page_arabic' else str(rng.choice(['latin', 'latin', 'latin', 'arabic']))
            words = []
            for _ in range(int(rng.integers(1, 7)) if not (cls == 'page_long_lines' and l == 0) else int(rng.integers(70, 120))):
                if script == 'arabic' and rng.random() < 0.7:
                    pool = 'ابتثج' if (r + l) % 3 else '\ufe8f\ufe97\ufe9b\ufb56\ufedf'          # base letters, or presentation forms only (text from an old OCR system or a PDF)
                    words.append(''.join(pool[int(x)] for x in rng.integers(0, 5, size=int(rng.integers(1, 5)))))
                else:
                    words.append(''.join('abcdefgh.,-Z9'[int(x)] for x in rng.integers(0, 13, size=int(rng.integers(1, 6)))))
            # words outside the engine charset: astral-plane characters, and text that looks like an XML / HTML entity
            for wi in range(len(words)):
                if rng.random() < 0.08:
                    words[wi] = str(rng.choice(['\U0001D504\U0001D505', 'a\U0001F600b', '\U00010330', '\U00020000x', '&lt;', '&amp;', 'a&#169;', '&copy', '&nbsp;x', '&quot;b&gt;', '&amp;lt;br&amp;gt;', '&#x41;',
                                               'e\u0301', 'a\u0308b', 'cafe\u0301', '\u0627\u0653', 'n\u0303', 'e\u0301\u0301']))      # ... and decomposed (NFD) sequences
            kinds = ['single', 'single', 'double', 'lead', 'trail'] if cls != 'page_whitespace' else ['nbsp', 'tab', 'thin', 'ideo', 'mixed', 'mixed2', 'double', 'lead', 'trail']
            sep = str(rng.choice(kinds))
            if sep in SEPS:
                t = SEPS[sep].join(words)
            elif sep == 'lead':
                t = '  ' + ' '.join(words)
            elif sep == 'trail':
                t = ' '.join(words) + '  '
            elif sep == 'mixed':
                t = ''.join(w + str(rng.choice([' ', ' ', ' 　 ', '\t ', ' \t', '  '])) for w in words)
            else:
                t = ''.join(w + str(rng.choice(['\t', ' ', '　', ' '])) for w in words).rstrip() if rng.random() < 0.5 else ''.join(str(rng.choice(['\t', ' '])) + w for w in words)
            if rng.random() < 0.07:
                t = str(rng.choice(['', '   ', None, '\t']))
                t = None if t == 'None' else t
            mode = str(rng.choice(['peaky', 'peaky', 'noisy', 'noisy', 'diffuse', 'short', 'absent', 'nocoords', 'transformer']))
            if cls == 'page_long_lines' and l == 0:
                mode = str(rng.choice(['peaky', 'noisy']))       # a long line (more than 1000 frames) with alignable posteriors
            pad = [int(rng.integers(1, 12)), int(rng.integers(0, 6))] if rng.random() < 0.5 else [0, 0]
            lines.append({'id': 'r%d-l%d' % (r, l), 'baseline': bl, 'heights': h, 'polygon': pg, 'text': t, 'mode': mode, 'seed': int(rng.integers(0, 1 << 30)), 'sep': sep, 'script': script,
                          'pad': pad})
        blocks.append({'id': 'r%d' % r, 'polygon': poly, 'lines': lines})
    mlc = float(rng.choice([0, 0.3, 0.99])) if cls == 'page_conf' or rng.random() < 0.3 else 0.0
    case = {'cls': cls, 'size': [H, W], 'blocks': blocks, 'min_line_confidence': mlc}
    # drawn last (round 7): a reading order assigned to the page after it was built, disagreeing with the order in which the page holds its regions;
    # PAGE-style line indices on every line of a block, disagreeing with the order in which the block holds its lines
    # (round 8) a line recognised by a model with a tiny alphabet ('a', 'b', blank space): a letter and its two neighbours can make up the whole alphabet
    cands = [l for b_ in blocks for l in b_['lines']]
    if cands and rng.random() < 0.25:
        l_ = cands[int(rng.integers(0, len(cands)))]
        if l_.get('script') != 'arabic':
            words = [''.join('ab'[int(k)] for k in rng.integers(0, 2, size=int(rng.integers(1, 5)))) for _ in range(int(rng.integers(1, 4)))]
            l_['text'], l_['alphabet'], l_['mode'], l_['sep'] = ' '.join(words), 'ab ', str(rng.choice(['peaky', 'noisy'])), 'single'
            case['tiny_alphabet'] = True
    if rng.random() < 0.3 and len(blocks) >= 2:
        perm = [int(x) for x in rng.permutation(len(blocks))]
        case['reading_order'] = {blocks[k]['id']: n for n, k in enumerate(perm)}
    if rng.random() < 0.3:
        case['line_index'] = str(rng.choice(['reversed', 'shuffled', 'consistent', 'equal']))
        case['line_index_seed'] = int(rng.integers(0, 1 << 30))
    return case


def describe(case):
    return case


def build(L, case):
    pl = L.PageLayout(id='page', page_size=tuple(case['size']))
    for b in case['blocks']:
        reg = L.RegionLayout(b['id'], np.array(b['polygon']))
        for l in b['lines']:
            tl = L.TextLine(id=l['id'], baseline=np.array(l['baseline'], dtype=np.float64), polygon=np.array(l['polygon']), heights=list(l['heights']), transcription=l['text'])
            # a confidence left by an earlier stage (the page parser's estimate, or a rounded value read from PAGE XML): the export reports its own estimate
            tl.transcription_confidence = [None, None, 0.0, 0.31, 0.5, 1.0][l['seed'] % 6]
            if l['mode'] != 'absent' and l['text']:
                chars_ = list(l.get('alphabet', CH))
                lg, T = mk_logits(np.random.default_rng(l['seed']), l['text'], chars_, 'peaky' if l['mode'] == 'nocoords' else l['mode'])
                tl.logits, tl.characters = lg, chars_ + ['<blank>']
                tl.logit_coords = [None, None] if l['mode'] == 'nocoords' else [0, T]
                p0, p1 = l.get('pad', [0, 0])
                if l['mode'] != 'nocoords' and p0 + p1 > 0:
                    # frames outside the line's own window (the crop was padded): confident about some other character
                    prng = np.random.default_rng(l['seed'] + 1)
                    dense = np.asarray(lg.todense())
                    rows = np.zeros((p0 + p1, dense.shape[1]))
                    rows[np.arange(p0 + p1), prng.integers(0, dense.shape[1] - 1, p0 + p1)] = 12.0
                    tl.logits = sparse.csc_matrix(np.concatenate([rows[:p0], dense, rows[p0:]], 0))
                    tl.logit_coords = [p0, p0 + T]
            reg.lines.append(tl)
        if case.get('line_index'):
            n = len(reg.lines)
            idx = {'reversed': list(range(n))[::-1], 'consistent': list(range(n)), 'equal': [0] * n,
                   'shuffled': [int(x) for x in np.random.default_rng(case['line_index_seed']).permutation(n)]}[case['line_index']]
            for tl, k in zip(reg.lines, idx):
                tl.index = k
        pl.regions.append(reg)
    if case.get('reading_order'):
        pl.reading_order = dict(case['reading_order'])
    return pl


INT = re.compile(r'-?\d+\Z')


def check(case, mon, ctx):
    ah = ctx.ah
    if case['cls'] == 'order_conversion':
        for s in case['strings']:
            mon.count('conversions_checked')
            r = ah.string_to_label_form(s)
            if collections.Counter(r) != collections.Counter(s):
                mon.violation('order-conversion-only-reorders', {'string': s, 'converted': r})
            rr = ah.label_form_to_string(r)
            if rr != s:
                mon.violation('order-conversion-involution', {'string': s, 'converted': r, 'back': rr})
            r2 = ah.label_form_to_string(s)
            if collections.Counter(r2) != collections.Counter(s) or ah.string_to_label_form(r2) != s:
                mon.violation('order-conversion-involution', {'string': s, 'direction': 'label->string->label', 'converted': r2})
        if any(len(s.split()) > 1 for s in case['strings']):
            mon.mark_nontrivial()
        return
    L = ctx.L
    pl = build(L, case)
    mlc = case['min_line_confidence']
    del ctx.log[:]
    try:
        x = pl.to_altoxml_string(min_line_confidence=mlc)
    except Exception as e:
        import traceback
        tb = traceback.extract_tb(e.__traceback__)
        where = next((f for f in reversed(tb) if f.filename.endswith('layout.py')), tb[-1])
        mon.violation('export-never-fails', {'exception': repr(e)[:200], 'at': '%s:%s %s' % (where.filename.split('/')[-1], where.lineno, (where.line or '')[:80])})
        return
    mon.count('exports')
    if case.get('tiny_alphabet'):
        mon.count('pages_with_a_line_over_a_two_letter_alphabet')
    if case.get('reading_order'):
        mon.count('pages_with_a_reading_order_other_than_the_held_order')
    if case.get('line_index') in ('reversed', 'shuffled'):
        mon.count('blocks_with_line_indices_other_than_the_held_order')
    if [r.id for r in pl.regions] != [b['id'] for b in case['blocks']] or any([l.id for l in r.lines] != [l['id'] for l in b['lines']] for r, b in zip(pl.regions, case['blocks'])):
        mon.violation('blocks-in-layout-order', {'note': 'the export re-ordered the regions / lines of the page object it was given', 'regions_after_export': [r.id for r in pl.regions]})
    # which lines took the aligned branch: align_text returned (recorder), in call order = order of exported candidate lines
    cand = [(b, l) for b in case['blocks'] for l in b['lines'] if l['text'] and l['text'].strip() != '']
    if any(len(l['text'].split()) > 1 for _, l in cand):
        mon.mark_nontrivial()
    aligned_flags = {}
    calls = list(ctx.log)
    ci = 0
    lines_obj = {l.id: l for l in pl.lines_iterator()}
    for b, l in cand:
        lo = lines_obj[l['id']]
        if lo.logits is None:
            aligned_flags[l['id']] = False
            continue
        # align_text is reached unless building the label raised before it
        if ci < len(calls):
            aligned_flags[l['id']] = 'result' in calls[ci]
            ci += 1
        else:
            aligned_flags[l['id']] = False
    root = ET.fromstring(x.encode('utf-8'))
    mon.observe('exported words and confidences', [(s_.get('CONTENT'), s_.get('WC'), s_.get('HPOS'), s_.get('WIDTH')) for s_ in root.iter(NS + 'String')])
    page = next(root.iter(NS + 'Page'))
    blocks = list(root.iter(NS + 'TextBlock'))
    if [tb.get('ID') for tb in blocks] != ['block_' + b['id'] for b in case['blocks']]:
        mon.violation('blocks-in-layout-order', {'got': [tb.get('ID') for tb in blocks]})
        return
    # integrality of every geometry attribute
    for el in root.iter():
        for a in ('HEIGHT', 'WIDTH', 'VPOS', 'HPOS', 'BASELINE'):
            v = el.get(a)
            if v is not None and not INT.match(v):
                mon.violation('geometry-attributes-are-integers', {'element': el.tag.replace(NS, ''), 'attribute': a, 'value': v})
    for tb, b in zip(blocks, case['blocks']):
        exp_lines = []
        for l in b['lines']:
            t = l['text']
            if not t or t.strip() == '':
                continue
            lo = lines_obj[l['id']]
            mon.count('lines_expected')
            if abs(l['baseline'][-1][0] - l['baseline'][0][0]) <= 12:
                mon.count('short_baseline_lines')
            aligned = aligned_flags.get(l['id'], False)
            mon.count('aligned_lines' if aligned else 'fallback_lines')
            if aligned and lo.logits.shape[0] > 1000:
                mon.count('aligned_lines_over_1000_frames')
            if aligned and lo.logit_coords[0]:
                mon.count('aligned_lines_with_offset_window')
            if any(ord(ch) > 0xFFFF for ch in t):
                mon.count('astral_lines')
            import unicodedata as _ud
            if _ud.normalize('NFC', t) != t:
                mon.count('decomposed_lines')
            pgx = np.asarray(l['polygon'], dtype=np.float64)
            if int(pgx[:, 0].max()) - int(pgx[:, 0].min()) <= 0 or int(pgx[:, 1].max()) - int(pgx[:, 1].min()) <= 0:
                mon.count('lines_with_an_outline_without_extent')
            if '&' in t:
                mon.count('entity_like_lines')
            conf = lo.transcription_confidence
            # the confidence the drop rule uses: recomputed independently for aligned lines
            if aligned:
                dense = lo.get_full_logprobs()[lo.logit_coords[0]:lo.logit_coords[1]]
                label = np.array([CH.index(c) if c in CH else 0 for c in t])
                rec = [c for c in calls if 'result' in c]
                try:
                    al = ctx.ce.align_text.__vf_orig__(-dense, label, dense.shape[1] - 1) if hasattr(ctx.ce.align_text, '__vf_orig__') else None
                    cexp = float(np.quantile(ctx.ce.get_line_confidence(lo, label, al, dense), .5)) if al is not None else None
                except Exception:
                    cexp = None
                if cexp is not None and (conf is None or abs(float(conf) - cexp) > 1e-9):
                    mon.violation('line-confidence-is-median-character-confidence', {'line': l['id'], 'got': conf, 'expected': cexp})
            dropped = conf is not None and conf < mlc
            if dropped:
                mon.count('dropped_lines')
                continue
            exp_lines.append((l, aligned))
        got_lines = list(tb.iter(NS + 'TextLine'))
        if len(got_lines) != len(exp_lines):
            mon.violation('every-nonblank-line-exactly-once / only-unconfident-lines-dropped', {'block': b['id'], 'got': len(got_lines), 'expected': len(exp_lines),
                          'min_line_confidence': mlc, 'confidences': [lines_obj[l['id']].transcription_confidence for l in b['lines']]})
            continue
        for le, (l, aligned) in zip(got_lines, exp_lines):
            t = l['text']
            got = [s.get('CONTENT') for s in le.iter(NS + 'String')]
            want = t.split()
            # an Arabic-script line: some word starts with a character of the Arabic blocks, incl. the presentation forms (decided here, not by the code under test)
            arabic = any(w_ and (0x0600 <= ord(w_[0]) <= 0x06FF or 0x0750 <= ord(w_[0]) <= 0x077F or 0xFB50 <= ord(w_[0]) <= 0xFBC1 or 0xFBD3 <= ord(w_[0]) <= 0xFD3F
                                 or 0xFD50 <= ord(w_[0]) <= 0xFD8F or 0xFE70 <= ord(w_[0]) <= 0xFEFC) for w_ in t.split())
            if arabic and not any(0x0600 <= ord(ch) <= 0x06FF for ch in t):
                mon.count('arabic_lines_in_presentation_forms_only')
            if arabic:
                mon.count('arabic_lines')
                if not aligned:
                    mon.count('arabic_fallback_lines')
                want = [ah.label_form_to_string(w) for w in want]
            if any(ch.isspace() and ch != ' ' for ch in t):
                mon.count('nonascii_space_lines')
            mon.count('words_compared')
            if got != want:
                mech = None
                mon.violation('words-equal-whitespace-separated-words', {'line': l['id'], 'text': t, 'got': got, 'expected': want, 'branch': 'aligned' if aligned else 'fallback',
                              'arabic': arabic, 'separator_class': l['sep']}, mechanism=mech)
            for s in le.iter(NS + 'String'):
                wc = s.get('WC')
                if wc is not None and not (0 <= float(wc) <= 1):
                    mon.violation('word-confidence-in-unit-interval', {'line': l['id'], 'wc': wc})
            if int(le.get('BASELINE')) != int(np.average(np.array(l['baseline'])[:, 1])):
                mon.violation('lines-in-layout-order', {'line': l['id'], 'baseline_attr': le.get('BASELINE')})
    # print space and margins
    H, W = case['size']
    g = lambda e, a: int(e.get(a))
    try:
        ps = next(root.iter(NS + 'PrintSpace'))
        tm, lm, rm, bm = [next(root.iter(NS + n)) for n in ('TopMargin', 'LeftMargin', 'RightMargin', 'BottomMargin')]
        l_ = min(g(b, 'HPOS') for b in blocks); t_ = min(g(b, 'VPOS') for b in blocks)
        r_ = max(g(b, 'HPOS') + g(b, 'WIDTH') for b in blocks); b_ = max(g(b, 'VPOS') + g(b, 'HEIGHT') for b in blocks)
        mon.count('printspace_checked')
        gotps = (g(ps, 'HPOS'), g(ps, 'VPOS'), g(ps, 'HPOS') + g(ps, 'WIDTH'), g(ps, 'VPOS') + g(ps, 'HEIGHT'))
        if gotps != (l_, t_, r_, b_):
            mon.violation('print-space-is-bounding-box-of-blocks', {'got_ltrb': gotps, 'expected_ltrb': (l_, t_, r_, b_), 'page': [H, W]})
        elif (g(tm, 'HEIGHT'), g(lm, 'WIDTH'), g(rm, 'HPOS'), g(rm, 'WIDTH'), g(bm, 'VPOS'), g(bm, 'HEIGHT')) != (t_, l_, r_, W - r_, b_, H - b_) or \
                (g(tm, 'WIDTH'), g(bm, 'WIDTH'), g(lm, 'HEIGHT'), g(rm, 'HEIGHT')) != (W, W, H, H):
            mon.violation('margins-cover-the-rest', {'top': dict(tm.attrib), 'left': dict(lm.attrib), 'right': dict(rm.attrib), 'bottom': dict(bm.attrib), 'print_space_ltrb': gotps, 'page': [H, W]})
        # blocks: bounding boxes of the region polygons
        for tb, b in zip(blocks, case['blocks']):
            xs = [p[0] for p in b['polygon']]; ys = [p[1] for p in b['polygon']]
            if (g(tb, 'HPOS'), g(tb, 'VPOS'), g(tb, 'WIDTH'), g(tb, 'HEIGHT')) != (min(xs), min(ys), max(xs) - min(xs), max(ys) - min(ys)):
                mon.violation('block-geometry', {'block': b['id'], 'got': dict(tb.attrib)})
    except (ValueError, TypeError, StopIteration) as e:
        mon.violation('geometry-attributes-are-integers', {'exception': repr(e)[:200]})
    # re-import
    try:
        l2 = L.PageLayout()
        l2.from_altoxml_string(x)
        mon.count('reimports')
        re_words = [ln.transcription.split(' ') if ln.transcription else [] for ln in l2.lines_iterator()]
        ex_words = [[s.get('CONTENT') for s in le.iter(NS + 'String')] for le in root.iter(NS + 'TextLine')]
        if re_words != ex_words:
            k = next((k for k, (a, b) in enumerate(zip(re_words, ex_words)) if a != b), None)
            mon.violation('reimport-returns-same-words', {'first_difference': k, 'reimported': re_words[k] if k is not None else len(re_words), 'exported': ex_words[k] if k is not None else len(ex_words)})
        if tuple(l2.page_size) != (H, W):
            mon.violation('reimport-returns-same-words', {'page_size': list(l2.page_size)})
    except Exception as e:
        mon.violation('reimport-returns-same-words', {'exception': repr(e)[:300]})
