"""C15 Stitching parts of an over-long line never loses text."""
import json
import os

import numpy as np

ID = 'C15'
LEVEL = 'exploration'
TECHNIQUE = ('runtime monitoring: recorder on find_best_overlap (detected overlaps and intermediate merged text) + offline arithmetic checker '
             'per merge step; end-to-end through the real BaseEngineLineOCR.process_lines in transformer mode with a glyph-reading run_ocr')
RULE = ('lists of 1-6 part transcriptions (classes: true overlapping windows of one text, windows with noise in the overlap, unrelated strings, '
        'empty parts anywhere, single characters, repeated text) with logits of >= len rows whose arg-max encodes the character; plus lines '
        'wider than max_line_width through process_lines. non-trivial = >= 2 non-empty parts; distinct = hash of the part list Independent minimum-error-rate oracle for every detected overlap; enumerations with overlaps of 11-23 characters; astral-plane text; no_logits=True runs; blank stretches longer than a window. Two 270-character windows sharing 262 characters; U+200B at part edges.')
RULE += ' Round 6: A reference merge independent of the recorder; blank-only parts.'
RULE += ' Round 7: 300-character windows without a common character; overlap candidates whose error rates differ in the sixth digit.'
RULE += ' Round 8: The number of recognition windows per over-long line.'
ASSUMPTIONS = ['the detected overlap is whatever find_best_overlap returned (recorded), the clauses are arithmetic on it',
               'end-to-end leg: the harness run_ocr reads one glyph per 8-px column block, so part transcriptions are exact windows']
N = {'quick': 3000, 'thorough': 150000}
CLASSES = ['windows', 'noisy_windows', 'unrelated', 'empties', 'single_chars', 'repetitive', 'end_to_end', 'enumeration', 'astral', 'long_windows', 'blank_parts']
REQUIRED = ['e2e_lines_ending_exactly_with_a_window', 'near_equal_error_rate_detections_checked', 'long_windows_without_a_common_character', 'reference_merges_compared', 'long_overlap_detections_checked', 'overlap_detections_checked', 'no_logits_runs', 'merges_checked', 'steps_checked', 'zero_overlap_steps', 'positive_overlap_steps', 'disjoint_or_empty_steps', 'e2e_lines', 'e2e_split_lines']
ALPHA = 'abcdefg '


def setup(ctx):
    import torch
    from pero_ocr.ocr_engine import line_ocr_engine as loe
    from vf import hooks
    ctx.loe = loe
    ctx.log = []
    hooks.wrap(loe, 'find_best_overlap', hooks.recorder(ctx.log, 'find_best_overlap'))

    chars = list(ALPHA)

    class GlyphEngine(loe.BaseEngineLineOCR):
        """transformer-mode engine whose 'network' reads one glyph code (pixel value = 1 + char index, 0 = nothing) per 8-px block"""
        def __init__(self, json_def):
            super().__init__(json_def, torch.device('cpu'), batch_size=4, model_type='transformer')
            self.net_subsampling = 8
            self.calls = []

        def run_ocr(self, batch_data):
            out_t, out_l = [], []
            for img in batch_data:
                codes = img[0, 4::8, 0]
                idx = [int(c) - 1 for c in codes if c > 0]
                t = ''.join(chars[k] for k in idx)
                lg = np.full((len(idx) + 2, len(chars) + 1), -8.0, dtype=np.float32)
                for r, k in enumerate(idx):
                    lg[r, k] = 8.0
                out_t.append(t); out_l.append(lg)
            self.calls.append(list(out_t))
            return out_t, out_l

    ctx.engines = {}
    for mlw in (64, 96, 160):
        d = os.path.join(ctx.tmpdir, 'eng%d' % mlw)
        os.makedirs(d, exist_ok=True)
        j = os.path.join(d, 'e.json')
        json.dump({'line_px_height': 8, 'line_vertical_scale': 1.0, 'checkpoint': 'none.pt', 'characters': chars, 'net_name': 'glyph',
                   'max_line_width': mlw}, open(j, 'w'))
        ctx.engines[mlw] = GlyphEngine(j)
    ctx.chars = chars


def rtext(rng, lo, hi, alpha=ALPHA):
    return ''.join(alpha[int(k)] for k in rng.integers(0, len(alpha), size=int(rng.integers(lo, hi + 1))))


def gen(rng, i, ctx):
    cls = CLASSES[i % len(CLASSES)]
    if cls == 'end_to_end':
        mlw = int(rng.choice([64, 96, 160]))
        texts = []
        for _ in range(int(rng.integers(1, 5))):
            t = rtext(rng, 1, 60, 'abcdefg' if rng.random() < 0.5 else ALPHA)
            gaps = [int(rng.random() < 0.15) for _ in t]   # blank stretches: blocks without a glyph (number of blocks before the character)
            if rng.random() < 0.4:
                gaps[int(rng.integers(0, len(t)))] = int(rng.integers(8, 40))     # a stretch longer than a recognition window: a seam without any overlap
            texts.append((t, gaps))
        return {'cls': cls, 'mlw': mlw, 'lines': texts}
    text = rtext(rng, 5, 40, 'ab' if cls == 'repetitive' else (ALPHA if cls != 'astral' else 'ab ' + ASTRAL))
    if cls == 'long_windows':
        if (i // len(CLASSES)) % 80 == 0:
            # two windows of 270 characters that share 262 of them (a very long line recognised with a short stride); rare, the scan is cubic
            text = rtext(rng, 278, 278, ALPHA)
            return {'cls': cls, 'parts': [text[:270], text[8:]], 'extra_rows': [0, 2], 'true_overlap': 262}
        if (i // len(CLASSES)) % 80 == 27:
            # (round 7) two windows of 300 characters in different scripts: every suffix / prefix pair is all errors, there is no overlap
            a_ = ''.join(chr(97 + int(k)) for k in rng.integers(0, 26, size=300))
            b_ = ''.join(chr(0xC0 + int(k)) for k in rng.integers(0, 50, size=300))
            return {'cls': cls, 'parts': [a_, b_], 'extra_rows': [1, 0], 'long_unrelated': True}
        if (i // len(CLASSES)) % 80 == 53:
            # (round 7) two long, badly matching windows: two overlap lengths whose error rates differ only in the sixth digit
            return {'cls': 'near_equal_rates', 'pair': [int(v) for v in NEAR_EQUAL[int(rng.integers(0, len(NEAR_EQUAL)))]], 'plant_seed': int(rng.integers(0, 1 << 30))}
        cls = 'windows'
    if cls == 'enumeration':
        # nearly periodic text with a long period (a list, a table column): long overlaps whose shorter candidates are almost as good
        k0 = int(rng.integers(0, 9000))
        word = str(rng.choice(['item ', 'no. ', 'page ', 'fol. ']))
        text = ''.join('%s%04d ' % (word, k0 + j) for j in range(int(rng.integers(4, 8))))
    if cls in ('windows', 'noisy_windows', 'repetitive', 'enumeration', 'astral'):
        w = int(rng.integers(4, 13)); ov = int(rng.integers(1, w)); parts = []; s = 0
        if cls == 'enumeration':
            w = int(rng.integers(24, 46)); ov = int(rng.integers(11, min(w, 24)))
        while True:
            parts.append(text[s:s + w])
            if s + w >= len(text) or len(parts) >= 6:
                break
            s += w - ov
        if cls == 'noisy_windows':
            parts = [''.join(('xyz'[int(rng.integers(0, 3))] if rng.random() < 0.12 else c) for c in p) for p in parts]
            parts = [p if rng.random() < 0.8 else p[:max(0, len(p) - 1)] for p in parts]
    elif cls == 'blank_parts':
        # windows of a line with wide gaps: a part that holds blanks only, next to parts that begin / end with blanks
        a_, b_ = rtext(rng, 2, 8, 'abcde:'), rtext(rng, 2, 8, 'abcde')
        nb = int(rng.integers(1, 4))
        parts = [a_ + ' ' * int(rng.integers(1, 4)), ' ' * nb, ' ' * int(rng.integers(0, 3)) + b_]
        if rng.random() < 0.4:
            parts.insert(0, rtext(rng, 3, 6, 'xyz') + a_[:2])
    elif cls == 'unrelated':
        parts = [rtext(rng, 1, 6, 'abc') for _ in range(int(rng.integers(1, 6)))]
        parts = [p.replace('a', 'q').replace('b', 'u').replace('c', 'v') if k % 2 else p for k, p in enumerate(parts)]
    elif cls == 'empties':
        parts = [rtext(rng, 1, 5, 'abc') if rng.random() < 0.55 else '' for _ in range(int(rng.integers(1, 7)))]
    else:
        parts = [rtext(rng, 1, 1, 'ab') for _ in range(int(rng.integers(1, 7)))]
    extra_rows = [int(rng.integers(0, 4)) for _ in parts]
    return {'cls': cls, 'parts': parts, 'extra_rows': extra_rows}


def describe(case):
    return case


# (overlap length, matching characters) x 2: the longer overlap has the strictly lower error rate, by less than 1e-5 relative
NEAR_EQUAL = [(316, 15, 337, 16), (321, 20, 337, 21), (321, 16, 341, 17), (323, 23, 337, 24), (324, 19, 341, 20), (324, 17, 343, 18), (325, 27, 337, 28), (325, 18, 343, 19),
              (326, 25, 339, 26), (331, 33, 341, 34)]


def check_near_equal(case, mon, ctx):
    from fractions import Fraction
    import Levenshtein
    loe = ctx.loe
    I1, m1, I2, m2 = case['pair']
    rng = np.random.default_rng(case['plant_seed'])
    N1, L = I2 + 5, I2 + 3
    t1 = [chr(0x4E00 + k) for k in range(N1)]
    t2 = [chr(0x3400 + k) for k in range(L)]
    K1 = sorted(int(k) for k in rng.choice(np.arange(60, I1 - 2), size=m1, replace=False))
    K2 = sorted(int(k) for k in rng.choice(np.array([k for k in range(3, I2 - 2) if k not in K1]), size=m2, replace=False))
    for k in K1:
        t2[k] = t1[N1 - I1 + k]
    for k in K2:
        t2[k] = t1[N1 - I2 + k]
    t1, t2 = ''.join(t1), ''.join(t2)
    best, arg = Fraction(1), {0}
    for i in range(1, min(len(t1), len(t2)) + 1):
        c = Fraction(int(Levenshtein.distance(t1[-i:], t2[:i])), i)
        if c < best:
            best, arg = c, {i}
        elif c == best and best < 1:
            arg.add(i)
    got = int(loe.find_best_overlap(t1, t2))
    mon.count('near_equal_error_rate_detections_checked')
    mon.mark_nontrivial()
    mon.observe('overlap', got)
    if got not in arg:
        mon.violation('detected-overlap-has-minimum-error-rate', {'lengths': [len(t1), len(t2)], 'overlap': got, 'lengths_of_minimum_error_rate': sorted(arg), 'minimum_error_rate': '%d/%d' % (best.numerator, best.denominator),
                      'planted': case['pair']})


ASTRAL = '\U0001D504\U0001F600\U00020BB7\u200b'


def code(ch):
    return ord(ch) if ord(ch) < 250 else 250 + ASTRAL.index(ch)


def decode(k):
    return chr(int(k)) if int(k) < 250 else ASTRAL[int(k) - 250]


def ref_best_overlaps(prev, part):
    """all overlap lengths with the minimum character error rate (suffix of prev vs prefix of part), by an independent edit distance;
    {0} when no length reaches a rate below 1"""
    from fractions import Fraction
    from vf.oracles.editdist import ref_lev
    best, arg = Fraction(1), {0}
    for i in range(1, min(len(prev), len(part)) + 1):
        c = Fraction(int(ref_lev(list(prev[-i:]), list(part[:i]))), i)
        if c < best:
            best, arg = c, {i}
        elif c == best and best < 1:
            arg.add(i)
    return arg


def make_logits(parts, extra_rows):
    """row r of part p has its arg-max at ord(char) (vocabulary 256) and carries (p, r) in two marker columns"""
    out = []
    for p, (t, ex) in enumerate(zip(parts, extra_rows)):
        lg = np.zeros((len(t) + ex, 258), dtype=np.float64)
        for r, ch in enumerate(t):
            lg[r, code(ch)] = 5.0
            lg[r, 256] = p
            lg[r, 257] = r
        for r in range(len(t), len(t) + ex):
            lg[r, 256] = -1
        out.append(lg)
    return out


def check_steps(parts, result, overlaps_log, mon, info):
    """offline checker: overlaps_log = recorder events of find_best_overlap in call order"""
    calls = [e for e in overlaps_log if 'result' in e]
    if len(calls) != len(parts) - 1:
        mon.inconclusive_because('find_best_overlap was not observed once per merge step')
        return None
    ovs = [int(e['result']) for e in calls]
    inter = [e['args'][0] for e in calls] + [result]      # merged text before step i (i>=1) ... final
    if inter[0] != parts[0]:
        mon.violation('begins-with-first-part', dict(info, note='first merge does not start from the first part', seen=inter[0]))
    for k in range(1, len(parts)):
        prev, cur, part, o = inter[k - 1], inter[k], parts[k], ovs[k - 1]
        mon.count('steps_checked')
        mon.count('zero_overlap_steps' if o == 0 else 'positive_overlap_steps')
        step = dict(info, step=k, before=prev, part=part, overlap=o, after=cur)
        if o < 0 or o > min(len(prev), len(part)):
            mon.violation('overlap-range', step)
            continue
        # the detected overlap is a length of minimum character error rate (an independent edit distance; any of several equally good lengths is accepted)
        if info.get('true_overlap') and prev.endswith(part[:info['true_overlap']]):
            # noise-free windows: an overlap without any error exists, so the detected one must be free of errors too
            mon.count('long_overlap_detections_checked')
            if o == 0 or not prev.endswith(part[:o]):
                mon.violation('detected-overlap-has-minimum-error-rate', dict({k_: v_ for k_, v_ in step.items() if k_ not in ('before', 'part', 'after', 'parts')}, lengths=[len(prev), len(part)],
                              an_error_free_overlap_exists_of_length=info['true_overlap']))
        if len(prev) <= 80 and len(part) <= 80:
            mon.count('overlap_detections_checked')
            best = ref_best_overlaps(prev, part)
            if o not in best:
                mon.violation('detected-overlap-has-minimum-error-rate', dict(step, lengths_of_minimum_error_rate=sorted(best)))
        if o == 0 and cur != prev + part:
            mon.violation('no-overlap-concatenated-unchanged', step)
        # independent of what the detector reported: neighbours without a single common character (or an empty one) share no overlap
        if (not prev or not part or not (set(prev) & set(part))):
            mon.count('disjoint_or_empty_steps')
            if cur != prev + part:
                mon.violation('no-overlap-concatenated-unchanged', dict(step, note='neighbours have no character in common (or one is empty), so there is no overlap to remove'))
        if len(cur) != len(prev) + len(part) - o:
            mon.violation('length', step)
        if not cur.startswith(prev[:len(prev) - (o + 1) // 2]):
            mon.violation('begins-with-first-part', step)
        if not cur.endswith(part[o // 2:]):
            mon.violation('ends-with-last-part', step)
    return ovs


def check(case, mon, ctx):
    loe = ctx.loe
    if case['cls'] == 'end_to_end':
        return check_e2e(case, mon, ctx)
    if case['cls'] == 'near_equal_rates':
        return check_near_equal(case, mon, ctx)
    parts = case['parts']
    if case.get('long_unrelated'):
        mon.count('long_windows_without_a_common_character')
    logits = make_logits(parts, case['extra_rows'])
    if sum(1 for p in parts if p) >= 2:
        mon.mark_nontrivial()
    del ctx.log[:]
    try:
        t, l = loe.merge_transcriptions_and_logits(list(parts), [x.copy() for x in logits])
    except Exception as e:
        mon.violation('merge-raises', {'parts': parts, 'exception': repr(e)[:200]})
        return
    mon.count('merges_checked')
    mon.observe('merged text', [t, int(np.asarray(l).shape[0])])
    info = {'parts': parts}
    # reference merge, independent of the recorder: at every step the shortest overlap of minimum error rate is removed, half from each side
    if all(len(p_) <= 80 for p_ in parts) and len(parts) <= 6:
        ref_t = parts[0]
        for part in parts[1:]:
            o_ = min(ref_best_overlaps(ref_t, part)) if ref_t and part else 0
            ref_t = ref_t[:len(ref_t) - (o_ + 1) // 2] + part[o_ // 2:]
            if len(ref_t) > 400:
                break
        else:
            mon.count('reference_merges_compared')
            if t != ref_t:
                mon.violation('merged-text-equals-the-reference-merge', dict(info, got=t, expected=ref_t))
    if case.get('true_overlap'):
        info['true_overlap'] = case['true_overlap']
    ovs = check_steps(parts, t, list(ctx.log), mon, info)
    if ovs is None:
        return
    if len(t) != sum(map(len, parts)) - sum(ovs):
        mon.violation('length', dict(info, overlaps=ovs, result=t))
    k0 = max(0, len(parts[0]) - sum((o + 1) // 2 for o in ovs))
    if not t.startswith(parts[0][:k0]):
        mon.violation('begins-with-first-part', dict(info, overlaps=ovs, result=t))
    if len(parts) > 1 and not t.endswith(parts[-1][ovs[-1] // 2:]):
        mon.violation('ends-with-last-part', dict(info, overlaps=ovs, result=t))
    if all(o == 0 for o in ovs) and t != ''.join(parts):
        mon.violation('no-overlap-concatenated-unchanged', dict(info, overlaps=ovs, result=t))
    l = np.asarray(l)
    if l.shape[0] != len(t):
        mon.violation('one-logit-row-per-character', dict(info, overlaps=ovs, result=t, rows=int(l.shape[0])))
    elif len(t) and ''.join(decode(a) for a in l[:, :256].argmax(axis=1)) != t:
        mon.violation('logit-rows-match-characters', dict(info, overlaps=ovs, result=t,
                      rows=''.join(decode(a) for a in l[:, :256].argmax(axis=1))))


def check_e2e(case, mon, ctx):
    eng = ctx.engines[case['mlw']]
    chars = ctx.chars
    lines, truths = [], []
    for t, gaps in case['lines']:
        blocks = []
        for ch, g in zip(t, gaps):
            blocks += [0] * int(g)
            blocks.append(1 + chars.index(ch))
        img = np.zeros((8, 8 * len(blocks), 3), dtype=np.uint8)
        for b, code in enumerate(blocks):
            img[:, 8 * b:8 * b + 8, :] = code
        lines.append(img)
        truths.append(t)
    del ctx.log[:]
    del eng.calls[:]
    tr, lg, co = eng.process_lines(lines, sparse_logits=False)
    mon.mark_nontrivial()
    # the text does not depend on whether the caller wants the logits
    log_keep, calls_keep = list(ctx.log), list(eng.calls)
    try:
        tr_nl, lg_nl, co_nl = eng.process_lines(lines, no_logits=True)
        mon.count('no_logits_runs')
        if list(tr_nl) != list(tr):
            k = next(k for k, (x, y) in enumerate(zip(tr_nl, tr)) if x != y)
            mon.violation('text-independent-of-the-logits-option', {'line': truths[k], 'with_logits': tr[k], 'no_logits': tr_nl[k], 'mlw': case['mlw']})
    except Exception as e:
        mon.violation('merge-raises', {'via': 'process_lines(no_logits=True)', 'exception': repr(e)[:200]})
    ctx.log[:] = log_keep
    eng.calls[:] = calls_keep
    # group the recorded overlap calls per line is not needed for the clauses below: each line's merge is checked through
    # what the engine saw as its parts (the harness run_ocr logs them) by re-running the merge under the recorder
    for k, (t, truth) in enumerate(zip(tr, truths)):
        mon.count('e2e_lines')
        w = lines[k].shape[1]
        if lg[k].shape[0] != len(t):
            mon.violation('one-logit-row-per-character', {'line': truth, 'result': t, 'rows': int(lg[k].shape[0])})
        elif len(t) and ''.join(chars[int(a)] for a in np.asarray(lg[k]).argmax(axis=1)) != t:
            mon.violation('logit-rows-match-characters', {'line': truth, 'result': t})
        if co[k] != [0, len(t)]:
            mon.violation('e2e-frame-window', {'line': truth, 'coords': co[k], 'len': len(t)})
        if w <= case['mlw']:
            if t != truth:
                mon.violation('e2e-unsplit-line-unchanged', {'line': truth, 'result': t})
            continue
        mon.count('e2e_split_lines')
        # the line was split: whatever overlaps were detected, text may only be lost inside detected overlaps; with exact
        # windows the first and last characters must survive and the length can differ from the truth only by mis-detected overlap
        if truth and (not t or t[0] != truth[0] or t[-1] != truth[-1]):
            mon.violation('e2e-begins-and-ends', {'line': truth, 'result': t, 'mlw': case['mlw']})
        if t == truth:
            mon.count('e2e_exact_reconstruction')
    # per-step clauses for every merge the engine performed, from the recorder log (calls for consecutive parts of a line)
    calls = [e for e in ctx.log if 'result' in e]
    # (round 8) a line wider than the window is recognised in windows that advance by three quarters of the window width until the line is covered: a further window
    # would hold nothing new, and its text would be stitched on a second time
    mlw = case['mlw']
    step = mlw - mlw // 4
    expected_merges = sum(-(-(img.shape[1] - mlw) // step) for img in lines if img.shape[1] > mlw)
    mon.count('e2e_window_counts_checked')
    if any(img.shape[1] > mlw and (img.shape[1] - mlw // 4) % step == 0 for img in lines):
        mon.count('e2e_lines_ending_exactly_with_a_window')
    if len(calls) != expected_merges:
        mon.violation('e2e-begins-and-ends', {'note': 'number of recognition windows: %d merge steps were performed for lines that are covered by windows needing %d' % (len(calls), expected_merges),
                      'window_width': mlw, 'line_widths': [int(img.shape[1]) for img in lines]}, mechanism='e2e-window-count')
    for e in calls:
        prev, part, o = e['args'][0], e['args'][1], int(e['result'])
        mon.count('e2e_overlap_calls')
        if o < 0 or o > min(len(prev), len(part)):
            mon.violation('overlap-range', {'before': prev, 'part': part, 'overlap': o})


def extra(mon, ctx):
    """engine-level merges re-checked step by step: feed the parts the engine produced to the merge under the recorder"""
    if ctx.shard != 0:
        return
    loe = ctx.loe
    eng = ctx.engines[64]
    rng = np.random.default_rng([ctx.seed, 15, 999])
    for it in range(150 if ctx.tier == 'quick' else 3000):
        t = rtext(rng, 10, 70)
        img = np.zeros((8, 8 * len(t), 3), dtype=np.uint8)
        for b, ch in enumerate(t):
            img[:, 8 * b:8 * b + 8, :] = 1 + ctx.chars.index(ch)
        del eng.calls[:]
        del ctx.log[:]
        tr, lg, co = eng.process_lines([img], sparse_logits=False)
        parts = eng.calls[0]
        mon.cur_desc = {'text': t, 'parts': parts}
        mon.count('extra_evaluations')
        check_steps(parts, tr[0], list(ctx.log), mon, {'text': t, 'parts': parts})
        if tr[0] == t:
            mon.count('e2e_exact_reconstruction')
