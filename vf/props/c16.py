"""C16 Every reported confidence is a probability derived from normalised posteriors."""
import math
import re

import numpy as np
from scipy import sparse

from vf import genlib

ID = 'C16'
LEVEL = 'exploration'
TECHNIQUE = ('runtime monitoring: icontract range/normalisation postconditions on every confidence-producing function (installed in all checks) plus metamorphic '
             'oracles (per-frame shift invariance, one-hot = 1, threshold monotonicity) on generated matrices and bags, and word confidences parsed from real ALTO exports')
RULE = ('logit matrices T(3-40) x C(3-12): dense at several temperatures, sparse-with-floor, one-hot, transformer-shaped (rows == characters), with an alignable '
        'label sequence; hypothesis bags of 1-20 hypotheses with/without LM scores, weights 0-3, scores down to -700; thresholds on a grid. '
        'non-trivial = matrix with at least 2 labels / bag with at least 2 hypotheses; distinct = hash of the matrix or bag Lines of more than 1000 frames. One frame per character inside a padded matrix; threshold through PageDecoder.decode_line; confidences written by the engine-merging script; raw scores up to magnitude 1000. A word of tied letters in a line whose median is within 1e-5 of 1; two character tables on one page; a second export after new logits.')
RULE += ' Round 6: PageDecoder built from a configuration with thresholds above 1; bags with some LM scores missing.'
RULE += ' Round 7: An LM score of exactly zero in a bag; a line without frames.'
RULE += ' Round 8: Lines whose pruned entries are stored explicitly.'
ASSUMPTIONS = ['shift invariance is judged on matrices whose entries are all stored (sparse-with-floor replaces pruned entries by a fixed floor, so a shift of the stored ones is not a shift of "all logits of the frame")',
               'no stored logit is exactly 0.0', 'tolerance 1e-9 (float64)']
N = {'quick': 3000, 'thorough': 100000}
CLASSES = ['dense', 'dense_peaky', 'sparse_floor', 'onehot', 'transformer', 'bag', 'bag_lm', 'bag_extreme', 'threshold', 'alto_wc', 'tiny_logits', 'alto_word_onehot', 'parser_update', 'long_line', 'window_equals_text', 'merged_confidences', 'alto_uncertain_word']
REQUIRED = ['lines_with_explicitly_stored_zeros', 'bags_with_an_lm_score_of_exactly_zero', 'lines_without_frames_checked', 'factory_built_page_decoder_thresholds', 'second_exports_after_new_logits', 'pages_with_two_character_tables', 'uncertain_words_checked', 'merged_line_confidences_checked', 'page_decoder_thresholds_checked', 'window_equals_text_lines', 'lines_over_1000_frames', 'word_onehot_lines', 'parser_updates', 'tiny_logit_lines', 'repeated_calls_checked', 'bag_history_steps', 'repo_tests_under_contracts', 'line_conf_checked', 'shift_checked', 'onehot_checked', 'letter_conf_checked', 'page_conf_checked', 'bag_checked', 'monotone_checked', 'wc_checked',
            'contract:get_line_confidence in [0,1], one per label', 'contract:posteriors <= 0 and sum to 1', 'contract:compute_line_confidence in [0,1]']
TOL = 1e-9


def setup(ctx):
    from pero_ocr.core import layout, confidence_estimation as ce, force_alignment as fa
    from pero_ocr.document_ocr import page_parser as pp
    from pero_ocr.decoding.bag_of_hypotheses import BagOfHypotheses
    ctx.layout, ctx.ce, ctx.fa, ctx.pp, ctx.BOH = layout, ce, fa, pp, BagOfHypotheses


def gen(rng, i, ctx):
    cls = CLASSES[i % len(CLASSES)]
    if cls.startswith('bag'):
        n = int(rng.integers(1, 21))
        mag = float(rng.choice([1, 50, 700])) if cls == 'bag_extreme' else float(rng.choice([1, 10]))
        vis = [float(-rng.random() * mag) for _ in range(n)]
        lm = None if cls == 'bag' else [float(-rng.random() * 20) for _ in range(n)]
        if cls == 'bag_lm' and rng.random() < 0.3 and n >= 2:
            lm[int(rng.integers(0, n))] = None            # a bag in which some hypotheses carry no LM score (hypotheses added by hand to a decoded bag)
        case = {'cls': cls, 'vis': vis, 'lm': lm, 'weight': float(rng.choice([0, 0.5, 1, 3]))}
        if lm is not None and all(x is not None for x in lm) and rng.random() < 0.35:
            lm[int(rng.integers(0, n))] = 0.0             # (round 7) an LM score of exactly 0 (the empty transcript: no character was scored yet)
            case['zero_lm_score'] = True
        return case
    if cls == 'alto_word_onehot':
        # two words, the second also occurring inside (or equal to) the first; the frames of ONE of them are one-hot, the other's are noisy
        w2 = ''.join('abcd'[int(k)] for k in rng.integers(0, 4, size=int(rng.integers(1, 4))))
        w1 = (''.join('abcd'[int(k)] for k in rng.integers(0, 4, size=int(rng.integers(0, 3)))) + w2) if rng.random() < 0.7 else w2
        return {'cls': cls, 'words': [w1, w2], 'onehot_word': int(rng.integers(0, 2)), 'seed': int(rng.integers(0, 1 << 30))}
    if cls == 'parser_update':
        return {'cls': cls, 'seed': int(rng.integers(0, 1 << 30)), 'n': int(rng.integers(1, 5))}
    if cls == 'alto_uncertain_word':
        return {'cls': cls, 'seed': int(rng.integers(0, 1 << 30)), 'words': int(rng.integers(3, 7)), 'margin': float(rng.choice([14.0, 16.0, 18.0, 25.0, 100.0]))}
    if cls == 'merged_confidences':
        return {'cls': cls, 'seed': int(rng.integers(0, 1 << 30)), 'engines': int(rng.integers(1, 4)), 'lines': int(rng.integers(1, 5))}
    if cls == 'window_equals_text':
        # a CTC line whose own frame window holds exactly one frame per character (no blank, no repeated frame), inside a longer padded matrix
        n = int(rng.integers(2, 12))
        labs = []
        while len(labs) < n:
            c = int(rng.integers(0, 5))
            if not labs or c != labs[-1]:
                labs.append(c)
        return {'cls': cls, 'labels': labs, 'pad': [int(rng.integers(1, 9)), int(rng.integers(0, 6))], 'seed': int(rng.integers(0, 1 << 30))}
    C = int(rng.integers(3, 13))
    L = int(rng.integers(1, 9))
    if cls == 'long_line':
        L = int(rng.integers(420, 520))          # more than 1000 frames
    labels = [int(x) for x in rng.integers(0, C - 1, size=L)]
    path = genlib.path_for_labels(rng, labels, C - 1)
    if cls == 'transformer':
        lg = rng.normal(size=(L, C)) * float(rng.choice([1, 5, 200, 1000]))      # also raw scores of large magnitude
        lg[lg == 0] = 0.1
        return {'cls': cls, 'logits': lg, 'labels': labels}
    mode = {'dense': 'noisy', 'dense_peaky': 'peaky', 'sparse_floor': 'noisy', 'onehot': 'onehot', 'threshold': 'noisy', 'alto_wc': str(rng.choice(['peaky', 'noisy', 'onehot'])), 'tiny_logits': 'onehot', 'long_line': str(rng.choice(['peaky', 'noisy', 'onehot']))}[cls]
    lg = genlib.logits_for_path(rng, path, C, mode=mode)
    if cls == 'tiny_logits':
        # stored log-posteriors of a near one-hot output: the winner's logit is a genuine stored value of magnitude 1e-9 .. 1e-12 (not a pruned 0.0)
        lg = np.zeros_like(lg)
        lg[np.arange(len(path)), path] = -10.0 ** float(rng.uniform(-12, -9))
    if cls == 'dense' and rng.random() < 0.5:
        lg = rng.normal(size=lg.shape) * float(rng.choice([1, 5, 20]))   # arg-max path unrelated to the labels
        lg[lg == 0] = 0.1
    case = {'cls': cls, 'logits': lg, 'labels': labels, 'path': path, 'shift': rng.normal(size=(lg.shape[0], 1)) * 3}
    if cls == 'threshold':
        case['thresholds'] = sorted(float(t) for t in np.concatenate([rng.random(6), [0.0, 1.0, -0.1, 1.1, float('inf')]]))
    if cls == 'alto_wc':
        nwords = int(rng.integers(1, 4))
        cuts = sorted(set(int(c) for c in rng.integers(1, max(2, L), size=nwords - 1))) if L > 1 else []
        case['cuts'] = cuts
    return case


def describe(case):
    return case


def in_unit(x):
    a = np.asarray(x, dtype=np.float64)
    return bool(np.all(a >= -TOL) and np.all(a <= 1 + TOL) and not np.isnan(a).any())


def check_bag(case, mon, ctx):
    b = ctx.BOH(lm_weight=case['weight'])
    for k, v in enumerate(case['vis']):
        b.add('t%d' % k, v, None if case['lm'] is None else case['lm'][k])
    # LM scores count only when every hypothesis has one (a bag with some missing falls back to the visual scores for all of them)
    lm_eff = case['lm'] if case['lm'] is not None and all(x is not None for x in case['lm']) else None
    if case['lm'] is not None and lm_eff is None:
        mon.count('bags_with_some_lm_scores_missing')
    mon.count('bag_checked')
    if case.get('zero_lm_score'):
        mon.count('bags_with_an_lm_score_of_exactly_zero')
    if len(case['vis']) > 1:
        mon.mark_nontrivial()
    p = np.asarray(b.posteriors(), dtype=np.float64)
    if abs(np.logaddexp.reduce(p)) > TOL or np.any(p > TOL):
        mon.violation('posteriors-sum-to-1', {'posteriors': p})
    totals = np.array([v + (case['weight'] * lm_eff[k] if lm_eff is not None else 0.0) for k, v in enumerate(case['vis'])])
    exp = np.exp(totals - np.logaddexp.reduce(totals))
    if np.abs(np.exp(p) - exp).max() > 1e-9:
        mon.violation('posteriors-from-normalised-scores', {'got': np.exp(p), 'expected': exp})
    c = b.confidence()
    if not in_unit(c) or abs(c - exp.max()) > 1e-9:
        mon.violation('bag-confidence', {'confidence': c, 'expected': float(exp.max())})
    for k in range(len(case['vis'])):
        tc = b.transcript_confidence('t%d' % k)
        if not in_unit(tc) or abs(tc - exp[k]) > 1e-9:
            mon.violation('transcript-confidence', {'k': k, 'got': tc, 'expected': float(exp[k])})
            break
    if b.transcript_confidence('not in the bag') != 0.0:
        mon.violation('transcript-confidence', {'note': 'unknown transcript has non-zero confidence'})
    # history on the same long-lived bag: change the (public) LM weight, then add a hypothesis; every query must reflect the current state
    for step, (neww, extra_h) in enumerate(((3.0 if case['weight'] != 3.0 else 0.5, None), (None, ('added', -0.75, None if case['lm'] is None else -1.5)))):
        vis, lms = list(case['vis']), (None if lm_eff is None else list(lm_eff))
        if neww is not None:
            b.lm_weight = neww
        wnow = b.lm_weight
        if extra_h is not None:
            b.add(*extra_h)
            vis.append(extra_h[1])
            if lms is not None:
                lms.append(extra_h[2])
        tot2 = np.array([v + (wnow * lms[k] if lms is not None else 0.0) for k, v in enumerate(vis)])
        exp2 = np.exp(tot2 - np.logaddexp.reduce(tot2))
        p2 = np.exp(np.asarray(b.posteriors(), dtype=np.float64))
        mon.count('bag_history_steps')
        if p2.shape != exp2.shape or np.abs(p2 - exp2).max() > 1e-9 or abs(b.confidence() - exp2.max()) > 1e-9 or not in_unit(b.confidence()):
            mon.violation('posteriors-from-normalised-scores', {'after': 'lm_weight changed to %r' % neww if neww is not None else 'a hypothesis was added', 'got': p2, 'expected': exp2, 'confidence': b.confidence()})
            break
    # a constant added to every score (one "frame" of scores) must not change posteriors
    b2 = ctx.BOH(lm_weight=case['weight'])
    for k, v in enumerate(case['vis']):
        b2.add('t%d' % k, v - 3.25, None if case['lm'] is None else case['lm'][k])
    if abs(b2.confidence() - c) > 1e-9:
        mon.violation('bag-shift-invariance', {'before': c, 'after': b2.confidence()})


def line_conf(ctx, lg_sparse, labels):
    line = ctx.layout.TextLine(logits=lg_sparse)
    return ctx.ce.get_line_confidence(line, np.array(labels))


def check(case, mon, ctx):
    cls = case['cls']
    if cls.startswith('bag'):
        return check_bag(case, mon, ctx)
    if cls == 'alto_word_onehot':
        return check_word_onehot(case, mon, ctx)
    if cls == 'parser_update':
        return check_parser_update(case, mon, ctx)
    if cls == 'window_equals_text':
        return check_window_equals_text(case, mon, ctx)
    if cls == 'merged_confidences':
        return check_merged_confidences(case, mon, ctx)
    if cls == 'alto_uncertain_word':
        return check_uncertain_word(case, mon, ctx)
    lg, labels = case['logits'], case['labels']
    C = lg.shape[1]
    if len(labels) >= 2:
        mon.mark_nontrivial()
    if cls == 'transformer':
        line = ctx.layout.TextLine(logits=sparse.csc_matrix(lg))
        c = ctx.ce.get_line_confidence(line, np.array(labels))
        mon.count('line_conf_checked')
        p = np.exp(lg - np.logaddexp.reduce(lg, axis=1)[:, None])
        exp = p[np.arange(len(labels)), labels]
        if not in_unit(c) or np.abs(c - exp).max() > 1e-9:
            mon.violation('transformer-confidence-is-posterior', {'got': c, 'expected': exp})
        return
    if cls == 'alto_wc':
        return check_alto(case, mon, ctx)
    stored = sparse.csc_matrix(lg) if cls != 'sparse_floor' else genlib.sparsify(lg, 1e-2)
    if cls in ('onehot', 'sparse_floor') and lg.shape[0] % 2 == 0:
        # (round 8) the same matrix with its pruned entries stored explicitly as 0.0 (pruned after the matrix was built, or assembled cell by cell): such zeros are
        # pruned entries like any other
        dense_ = np.asarray(stored.todense())
        rr_, cc_ = np.meshgrid(np.arange(dense_.shape[0]), np.arange(dense_.shape[1]), indexing='ij')
        stored = sparse.csc_matrix((dense_.ravel(), (rr_.ravel(), cc_.ravel())), shape=dense_.shape)
        if stored.nnz == dense_.size and (stored.data == 0).any():
            mon.count('lines_with_explicitly_stored_zeros')
    if cls == 'tiny_logits':
        mon.count('tiny_logit_lines')
    line = ctx.layout.TextLine(logits=stored)
    if lg.shape[0] > 1000:
        mon.count('lines_over_1000_frames')
    try:
        c = ctx.ce.get_line_confidence(line, np.array(labels))
    except ValueError as e:
        c = None
        # the matrix has one frame per element of a path that collapses to the labels, so the transcription is alignable and a confidence is due
        mon.violation('alignable-line-gets-a-confidence', {'frames': int(lg.shape[0]), 'labels': len(labels), 'exception': repr(e)[:200]})
    if c is not None:
        mon.count('line_conf_checked')
        if not in_unit(c):
            mon.violation('line-confidence-in-unit-interval', {'confidences': c})
    if c is not None:
        # the four-argument form used by the exporters: the caller supplies the alignment and the log-posteriors and may reuse them
        lp_caller = line.get_full_logprobs()
        keep = lp_caller.copy()
        try:
            al_pos = ctx.fa.align_text(-lp_caller, np.array(labels), C - 1)
            c_first = ctx.ce.get_line_confidence(line, np.array(labels), al_pos, lp_caller)
            c_second = ctx.ce.get_line_confidence(line, np.array(labels), al_pos, lp_caller)
            mon.count('repeated_calls_checked')
            if not in_unit(c_first) or not in_unit(c_second) or np.abs(np.asarray(c_first) - np.asarray(c_second)).max() > 1e-12 or np.abs(np.asarray(c_first) - np.asarray(c)).max() > 1e-9:
                mon.violation('line-confidence-in-unit-interval', {'note': 'second call with the same caller-supplied log-posteriors differs', 'first': c_first, 'second': c_second, 'without_supplied_matrices': c})
            if not np.array_equal(lp_caller, keep):
                mon.violation('computed-from-normalised-posteriors', {'note': 'the caller\'s log-posterior matrix was modified by get_line_confidence', 'max_abs_change': float(np.abs(lp_caller - keep).max())})
        except ValueError:
            pass
    v = ctx.pp.PageParser.compute_line_confidence(line)
    mon.count('page_conf_checked')
    # a line without any frame (an empty crop was recognised): its confidence is still a number in [0, 1]
    try:
        from scipy import sparse as _sp
        empty_line = ctx.layout.TextLine(id='no-frames', logits=_sp.csc_matrix(np.zeros((0, C))), characters=[chr(97 + k_) for k_ in range(C - 1)] + ['_'], transcription='')
        v0 = ctx.pp.PageParser.compute_line_confidence(empty_line)
        mon.count('lines_without_frames_checked')
        if not in_unit(v0):
            mon.violation('page-line-confidence-in-unit-interval', {'value': v0, 'note': 'line whose logit matrix has no rows'})
    except Exception as e:
        from vf import core as _core
        if _core.raised_where(e) == 'code-under-test-raises':
            mon.violation('page-line-confidence-in-unit-interval', {'exception': repr(e)[:200], 'note': 'line whose logit matrix has no rows'})
        else:
            raise
    mon.observe('confidences', [None if c is None else np.round(np.asarray(c, dtype=np.float64), 12).tolist(), round(float(v), 12)])
    if not in_unit(v):
        mon.violation('page-line-confidence-in-unit-interval', {'value': v})
    dense = line.get_dense_logits()
    lp = dense - np.logaddexp.reduce(dense, axis=1)[:, None]
    try:
        al = ctx.fa.force_align(-lp, list(labels), C - 1)
    except ValueError:
        al = None
    if al is not None:
        lc = ctx.ce.get_letter_confidence(dense, al, C - 1)
        mon.count('letter_conf_checked')
        if len(lc) != len(labels) or max(lc) > TOL or not in_unit(np.exp(lc)):
            mon.violation('letter-confidence-is-log-probability', {'values': lc})
    if cls in ('dense', 'dense_peaky', 'threshold'):
        sh = case['shift']
        lg2 = lg + sh
        if (lg2 == 0).any():
            mon.skip_ambiguous('shift-creates-zero')
        else:
            line2 = ctx.layout.TextLine(logits=sparse.csc_matrix(lg2))
            mon.count('shift_checked')
            if c is not None:
                c2 = ctx.ce.get_line_confidence(line2, np.array(labels))
                if np.abs(np.asarray(c) - np.asarray(c2)).max() > 1e-9:
                    mon.violation('shift-invariance', {'function': 'get_line_confidence', 'before': c, 'after': c2})
            v2 = ctx.pp.PageParser.compute_line_confidence(line2)
            if abs(v - v2) > 1e-9:
                mon.violation('shift-invariance', {'function': 'compute_line_confidence', 'before': v, 'after': v2})
            if al is not None:
                lc2 = ctx.ce.get_letter_confidence(lg2, al, C - 1)
                if np.abs(np.asarray(lc) - np.asarray(lc2)).max() > 1e-9:
                    mon.violation('shift-invariance', {'function': 'get_letter_confidence', 'before': lc, 'after': lc2})
            for thr in (0.3, 0.6, 0.9):
                if ctx.pp.line_confident_enough(lg, thr) != ctx.pp.line_confident_enough(lg2, thr):
                    w = float(np.exp(lp.max(axis=1).min()))
                    if abs(w - thr) > 1e-9:
                        mon.violation('shift-invariance', {'function': 'line_confident_enough', 'threshold': thr})
    if cls in ('onehot', 'tiny_logits'):
        mon.count('onehot_checked')
        if c is None or np.abs(np.asarray(c) - 1).max() > 1e-6:
            mon.violation('one-hot-gives-1', {'function': 'get_line_confidence', 'got': c})
        if abs(v - 1) > 1e-6:
            mon.violation('one-hot-gives-1', {'function': 'compute_line_confidence', 'got': v})
        if al is not None and np.abs(np.exp(lc) - 1).max() > 1e-6:
            mon.violation('one-hot-gives-1', {'function': 'get_letter_confidence', 'got': lc})
        if not ctx.pp.line_confident_enough(dense, 0.999):
            mon.violation('one-hot-gives-1', {'function': 'line_confident_enough', 'threshold': 0.999})
    if cls == 'threshold':
        ths = case['thresholds']
        r = [bool(ctx.pp.line_confident_enough(lg, t)) for t in ths]
        mon.count('monotone_checked')
        if any((not a) and b for a, b in zip(r, r[1:])):
            mon.violation('threshold-monotone', {'thresholds': ths, 'results': r})
        w = float(np.exp(lp.max(axis=1).min()))
        exp = [w > t for t in ths]
        if any(a != b and abs(w - t) > 1e-9 for a, b, t in zip(r, exp, ths)):
            mon.violation('threshold-is-worst-best-posterior', {'thresholds': ths, 'results': r, 'worst_best_posterior': w})
        # the same test as the page decoder applies it: a confident line keeps its incoming text and is not decoded
        class Dec:
            def __call__(self, logits, **kw):
                raise KeyError('decoded')
        line = ctx.layout.TextLine(id='l', logits=stored, characters=[chr(97 + k) for k in range(C - 1)] + ['_'], transcription='KEPT')
        kept = []
        for t in ths:
            pd = ctx.pp.PageDecoder(Dec(), line_confidence_threshold=t)
            try:
                kept.append(pd.decode_line(line) == 'KEPT')
            except KeyError:
                kept.append(False)
        mon.count('page_decoder_thresholds_checked', len(ths))
        # and as a page decoder built from a configuration file (CONFIDENCE_THRESHOLD in the [DECODER] section), incl. thresholds above 1 (nothing is confident enough)
        import configparser
        import json as _json
        import os as _os
        import torch as _torch
        ocrj = _os.path.join(ctx.tmpdir, 'thr_ocr_%d.json' % C)
        if not _os.path.exists(ocrj):
            _json.dump({'characters': [chr(97 + k) for k in range(C - 1)]}, open(ocrj, 'w'))
        kept_f, ths_f = [], [t for t in ths if np.isfinite(t)] + [1.5, 50.0, 100.0]
        ths_f = sorted(ths_f)
        for t in ths_f:
            cfg = configparser.ConfigParser()
            cfg.read_dict({'OCR': {'OCR_JSON': ocrj}, 'DECODER': {'TYPE': 'GREEDY', 'USE_CPU': 'yes', 'CARRY_H_OVER': 'no', 'CONFIDENCE_THRESHOLD': repr(float(t))}})
            pd = ctx.pp.page_decoder_factory(cfg, _torch.device('cpu'))
            line.transcription = 'KEPT'
            kept_f.append(pd.decode_line(line) == 'KEPT' and pd.lines_decoded == 0)
        mon.count('factory_built_page_decoder_thresholds', len(ths_f))
        exp_f = [w > t for t in ths_f]
        if any((not a) and b for a, b in zip(kept_f, kept_f[1:])) or any(a != b and abs(w - t) > 1e-9 for a, b, t in zip(kept_f, exp_f, ths_f)):
            mon.violation('threshold-monotone', {'via': 'page_decoder_factory (CONFIDENCE_THRESHOLD from the configuration)', 'thresholds': ths_f, 'line_kept': kept_f, 'worst_best_posterior': w})
        if any((not a) and b for a, b in zip(kept, kept[1:])) or any(a != b and abs(w - t) > 1e-9 for a, b, t in zip(kept, exp, ths)):
            mon.violation('threshold-monotone', {'via': 'PageDecoder.decode_line', 'thresholds': ths, 'line_kept': kept, 'worst_best_posterior': w})


def check_alto(case, mon, ctx):
    L = ctx.layout
    lg, labels = case['logits'], case['labels']
    C = lg.shape[1]
    chars = [chr(0x61 + k) for k in range(C - 2)] + [' ']         # last non-blank class is the space
    # words: insert spaces at the cuts (the space is a label of its own -> rebuild logits for the new label sequence)
    rng = np.random.default_rng(abs(hash(tuple(labels))) % (1 << 32))
    lab = [l if l < C - 2 else 0 for l in labels]
    full = []
    for k, l in enumerate(lab):
        if k in case['cuts']:
            full.append(C - 2)
        full.append(l)
    text = ''.join(chars[l] for l in full)
    mode = 'onehot' if np.abs(lg).max() == 40.0 else 'noisy'
    path = genlib.path_for_labels(rng, full, C - 1)
    lg2 = genlib.logits_for_path(rng, path, C, mode=mode if mode == 'onehot' else str(rng.choice(['peaky', 'noisy'])))
    baseline, heights, poly = genlib.straight_line_geometry(rng)
    page = L.PageLayout(id='p', page_size=(1500, 2000))
    reg = L.RegionLayout('r1', np.array([[0, 0], [2000, 0], [2000, 1500], [0, 1500]]))
    line = L.TextLine(id='r1-l1', baseline=baseline, polygon=poly, heights=heights, transcription=text,
                      logits=sparse.csc_matrix(lg2), characters=chars + ['<blank>'], logit_coords=[0, lg2.shape[0]])
    reg.lines.append(line)
    page.regions.append(reg)
    xml = page.to_altoxml_string()
    wcs = [float(x) for x in re.findall(r'\bWC="([^"]*)"', xml)]
    nwords = len(text.split())
    mon.count('wc_checked', len(wcs))
    if len(wcs) != nwords:
        mon.violation('word-confidence-present', {'text': text, 'n_wc': len(wcs), 'n_words': nwords})
    if not in_unit(wcs) if wcs else False:
        mon.violation('word-confidence-in-unit-interval', {'text': text, 'wc': wcs})
    if line.transcription_confidence is not None and not in_unit(line.transcription_confidence):
        mon.violation('line-confidence-in-unit-interval', {'where': 'ALTO export', 'value': line.transcription_confidence})
    if mode == 'onehot' and any(abs(w - 1) > 1e-6 for w in wcs):
        mon.violation('one-hot-gives-1', {'function': 'ALTO word confidence', 'wc': wcs})


def extra(mon, ctx):
    """the repository's own test suite under the contracts (a contract that fires there is too strict, or a defect the tests do not assert)"""
    if ctx.shard != 0:
        return
    import json
    import os
    import subprocess
    import sys
    out = os.path.join(ctx.tmpdir, 'plugin.json')
    env = dict(os.environ, VF_PLUGIN_OUT=out)
    p = subprocess.run([sys.executable, '-m', 'pytest', '-q', '-p', 'no:cacheprovider', '-p', 'vf.pytest_plugin', '--timeout=900'], cwd=ctx.repo, env=env, capture_output=True, text=True, timeout=900)
    if not os.path.exists(out):
        mon.inconclusive_because('repository tests under contracts produced no result: ' + (p.stdout + p.stderr)[-300:])
        return
    res = json.load(open(out))
    import re
    m = re.search(r'(\d+) passed', p.stdout)
    mon.count('repo_tests_under_contracts', int(m.group(1)) if m else 0)
    mon.count('extra_evaluations', int(m.group(1)) if m else 0)
    for k, v in res['counters'].items():
        if k.startswith('contract:'):
            mon.count('repo_tests:' + k, v)
    for v in res['violations']:
        mon.cur_desc = v.get('witness')
        mon.violation(v['clause'], dict(v['detail'] if isinstance(v['detail'], dict) else {'detail': v['detail']}, during='repository test suite'), witness=v.get('witness'))


def check_word_onehot(case, mon, ctx):
    """a word all of whose frames are one-hot must be exported with word confidence 1, also when the same letters occur in the previous word"""
    L = ctx.layout
    rng = np.random.default_rng(case['seed'])
    chars = list('abcd') + [' ']
    C = len(chars) + 1
    text = ' '.join(case['words'])
    labels = [chars.index(ch) for ch in text]
    path, owner = [C - 1, C - 1], [None, None]
    widx = 0
    prev = None
    for ch, lab in zip(text, labels):
        if ch == ' ':
            widx += 1
        if lab == prev:
            path.append(C - 1); owner.append(widx)
        for _ in range(int(rng.integers(1, 3))):
            path.append(lab); owner.append(widx if ch != ' ' else -1)
        path.append(C - 1); owner.append(widx if ch != ' ' else -1)
        prev = lab
    path += [C - 1, C - 1]; owner += [None, None]
    T = len(path)
    lg = rng.normal(size=(T, C)) * 1.5
    lg[np.arange(T), path] += 3.0                         # noisy but decodable everywhere ...
    hot = case['onehot_word']
    # ... except the frames of the chosen word and the separator next to it: exactly one-hot there
    for t in range(T):
        if owner[t] == hot or owner[t] == -1 or owner[t] is None:
            lg[t] = -60.0
            lg[t, path[t]] = 40.0
    lg[lg == 0] = 0.01
    baseline, heights, poly = genlib.straight_line_geometry(rng)
    page = L.PageLayout(id='p', page_size=(1500, 2000))
    reg = L.RegionLayout('r1', np.array([[0, 0], [2000, 0], [2000, 1500], [0, 1500]]))
    line = L.TextLine(id='r1-l1', baseline=baseline, polygon=poly, heights=heights, transcription=text, logits=sparse.csc_matrix(lg),
                      characters=chars + ['<blank>'], logit_coords=[0, T])
    reg.lines.append(line); page.regions.append(reg)
    xml = page.to_altoxml_string()
    wcs = re.findall(r'<String[^>]*CONTENT="([^"]*)"[^>]*?(?:WC="([^"]*)")?[^>]*/?>', xml)
    got = [(c, float(w)) for c, w in re.findall(r'CONTENT="([^"]*)"[^>]*\bWC="([^"]*)"', xml)]
    if len(got) != 2:
        got2 = re.findall(r'WC="([^"]*)"', xml)
        if len(got2) != 2:
            return      # alignment failed for this noise draw: no word confidences are written (fallback branch)
        got = list(zip(case['words'], [float(x) for x in got2]))
    mon.count('word_onehot_lines')
    mon.mark_nontrivial()
    if not in_unit([w for _, w in got]):
        mon.violation('word-confidence-in-unit-interval', {'text': text, 'wc': got})
    if abs(got[hot][1] - 1.0) > 0.006:
        mon.violation('one-hot-gives-1', {'function': 'ALTO word confidence', 'text': text, 'one_hot_word': case['words'][hot], 'word_confidences': got,
                      'note': 'every frame of this word (and of the neighbouring separator) is one-hot, the other word is noisy'})
    # history on the line object: it is recognised again (same text, same number of frames, the glyphs one frame later) and the page is exported again
    line.logits = sparse.csc_matrix(np.roll(lg, 1, axis=0))
    xml2 = page.to_altoxml_string()
    got2 = [float(x) for x in re.findall(r'WC="([^"]*)"', xml2)]
    if len(got2) == 2:
        mon.count('second_exports_after_new_logits')
        if abs(got2[hot] - 1.0) > 0.006:
            mon.violation('one-hot-gives-1', {'function': 'ALTO word confidence, second export after the line received new logits (same text and frame count, glyphs one frame later)',
                          'text': text, 'one_hot_word': case['words'][hot], 'word_confidences': got2})


def check_parser_update(case, mon, ctx):
    """PageParser.process_page on a layout whose lines already carry a confidence (an earlier run, or conf attributes of the input PAGE XML)
    and logits: the reported confidence must be the one computed from the line's current posteriors"""
    import configparser
    L = ctx.layout
    rng = np.random.default_rng(case['seed'])
    cfg = configparser.ConfigParser()
    cfg.read_dict({'PAGE_PARSER': {'RUN_LAYOUT_PARSER': 'no', 'RUN_LINE_CROPPER': 'no', 'RUN_OCR': 'no', 'RUN_DECODER': 'no'}})
    import torch
    parser = ctx.pp.PageParser(cfg, device=torch.device('cpu'))
    page = L.PageLayout(id='p', page_size=(100, 100))
    reg = L.RegionLayout('r', np.array([[0, 0], [10, 0], [10, 10]]))
    exp = []
    for k in range(case['n']):
        C = int(rng.integers(3, 8))
        labels = [int(x) for x in rng.integers(0, C - 1, size=int(rng.integers(1, 6)))]
        path = genlib.path_for_labels(rng, labels, C - 1)
        mode = str(rng.choice(['onehot', 'noisy', 'peaky']))
        lg = genlib.logits_for_path(rng, path, C, mode=mode)
        old = [None, 0.0, 0.53, 1.0][int(rng.integers(0, 4))]
        line = L.TextLine(id='l%d' % k, logits=sparse.csc_matrix(lg), characters=[chr(97 + c) for c in range(C - 1)] + ['_'], logit_coords=[0, len(path)],
                          transcription='x', transcription_confidence=old)
        reg.lines.append(line)
        exp.append((mode, old))
    page.regions.append(reg)
    page = parser.process_page(None, page)
    for line, (mode, old) in zip(reg.lines, exp):
        mon.count('parser_updates')
        dense = line.get_dense_logits()
        lp = dense - np.logaddexp.reduce(dense, axis=1)[:, None]
        ids, best = lp.argmax(axis=1), np.exp(lp.max(axis=1))
        # worst, over runs of equal arg-max, of the best posterior inside the run
        runs, prev = [], None
        for i_, b_ in zip(ids, best):
            if i_ != prev:
                runs.append(b_); prev = i_
            else:
                runs[-1] = max(runs[-1], b_)
        want = float(min(runs))
        got = line.transcription_confidence
        if got is None or not in_unit(got) or abs(float(got) - want) > 1e-9:
            mon.violation('computed-from-normalised-posteriors', {'function': 'PageParser.process_page / update_confidences', 'posteriors': mode, 'confidence_before': old,
                          'confidence_after': got, 'expected': want})
    mon.mark_nontrivial()


def check_window_equals_text(case, mon, ctx):
    """one-hot posteriors inside the line's own window (one frame per character), confident foreign characters in the padding around it: every
    character, the line and every exported word must get confidence 1, as the exporters call it (window of the log-posteriors passed in)"""
    L = ctx.layout
    rng = np.random.default_rng(case['seed'])
    chars = list('abcde')
    C = len(chars) + 1
    labels = case['labels']
    p0, p1 = case['pad']
    n = len(labels)
    lg = np.full((p0 + n + p1, C), -60.0)
    lg[np.arange(p0, p0 + n), labels] = 40.0
    for t in list(range(p0)) + list(range(p0 + n, p0 + n + p1)):
        lg[t] = rng.normal(size=C) * 2.0              # the padding: diffuse, says nothing about this line's characters
    lg[lg == 0] = 0.01
    text = ''.join(chars[c] for c in labels)
    baseline, heights, poly = genlib.straight_line_geometry(rng)
    line = L.TextLine(id='r1-l1', baseline=baseline, polygon=poly, heights=heights, transcription=text, logits=sparse.csc_matrix(lg),
                      characters=chars + ['<blank>'], logit_coords=[p0, p0 + n])
    window = line.get_full_logprobs()[p0:p0 + n]
    mon.count('window_equals_text_lines')
    mon.mark_nontrivial()
    al = ctx.fa.align_text(-window, np.array(labels), C - 1) if hasattr(ctx, 'fa') else None
    for name, args in (('window passed in', (line, np.array(labels), None, window)), ('window and alignment passed in', (line, np.array(labels), al, window))):
        if args[2] is None and name.startswith('window and'):
            continue
        c = ctx.ce.get_line_confidence(*args)
        mon.count('line_conf_checked')
        if not in_unit(c) or len(c) != n or np.abs(np.asarray(c) - 1.0).max() > 1e-6:
            mon.violation('one-hot-gives-1', {'function': 'get_line_confidence (%s)' % name, 'text': text, 'window': [p0, p0 + n], 'frames': int(lg.shape[0]), 'confidences': c})
    page = L.PageLayout(id='p', page_size=(1500, 2000))
    reg = L.RegionLayout('r1', np.array([[0, 0], [2000, 0], [2000, 1500], [0, 1500]]))
    # the page also holds a line of another engine: the same symbols in another order (as after merging engine outputs)
    chars2 = chars[1:] + chars[:1]
    lg_o = np.full((n + 2, C), -60.0)
    lg_o[np.arange(1, n + 1), [chars2.index(ch) for ch in text]] = 40.0
    lg_o[[0, n + 1], C - 1] = 40.0
    b2, h2, p2 = genlib.straight_line_geometry(rng)
    other = L.TextLine(id='r1-l0', baseline=b2, polygon=p2, heights=h2, transcription=text, logits=sparse.csc_matrix(lg_o), characters=chars2 + ['<blank>'], logit_coords=[0, n + 2])
    reg.lines.append(other)
    reg.lines.append(line); page.regions.append(reg)
    xml = page.to_altoxml_string(min_line_confidence=0.5)
    wc = [float(x) for x in re.findall(r'\bWC="([^"]*)"', xml)]
    mon.count('pages_with_two_character_tables')
    if len(wc) != 2 or any(abs(w - 1.0) > 0.006 for w in wc):        # one word per line, both lines one-hot: nothing may be dropped at threshold 0.5
        mon.violation('one-hot-gives-1', {'function': 'ALTO export with min_line_confidence=0.5', 'text': text, 'word_confidences': wc, 'line_confidence': line.transcription_confidence})


def check_merged_confidences(case, mon, ctx):
    """confidences reported by the engine-merging script (written to PAGE XML as conf=): None or a number in [0, 1], also for lines that no engine transcribed"""
    import importlib.util
    import os
    L = ctx.layout
    if not hasattr(ctx, 'merge_mod'):
        spec = importlib.util.spec_from_file_location('vf_c16_merge', os.path.join(ctx.repo, 'user_scripts', 'merge_ocr_results.py'))
        ctx.merge_mod = importlib.util.module_from_spec(spec)
        spec.loader.exec_module(ctx.merge_mod)
    rng = np.random.default_rng(case['seed'])
    chars = list('abcd')
    C = len(chars) + 1
    layouts = []
    empties = rng.random(case['lines']) < 0.4            # lines that stay without text in every engine
    for e in range(case['engines']):
        pl = L.PageLayout(id='p', page_size=(100, 100))
        reg = L.RegionLayout('r', np.array([[0, 0], [10, 0], [10, 10]]))
        for k in range(case['lines']):
            labels = [int(x) for x in rng.integers(0, C - 1, size=int(rng.integers(1, 6)))]
            path = genlib.path_for_labels(rng, labels, C - 1)
            lg = genlib.logits_for_path(rng, path, C, mode=str(rng.choice(['onehot', 'noisy', 'peaky', 'diffuse'])))
            text = '' if (empties[k] or rng.random() < 0.2) else ''.join(chars[c] for c in labels)
            if empties[k] and rng.random() < 0.5:
                text = None
            reg.lines.append(L.TextLine(id='l%d' % k, logits=sparse.csc_matrix(lg), characters=chars + ['_'], logit_coords=[0, len(path)], transcription=text))
        pl.regions.append(reg)
        layouts.append(pl)
    try:
        ctx.merge_mod.merge_layouts(layouts)
    except Exception as e:
        mon.violation('code-under-test-raises', {'function': 'merge_layouts', 'exception': repr(e)[:200]})
        return
    xml = layouts[0].to_pagexml_string()
    for line in layouts[0].lines_iterator():
        mon.count('merged_line_confidences_checked')
        c = line.transcription_confidence
        if c is not None and not in_unit(c):
            mon.violation('merged-line-confidence-in-unit-interval', {'line': line.id, 'transcription': line.transcription, 'confidence': float(c), 'engines': case['engines']})
    bad = [x for x in re.findall(r'conf="([^"]*)"', xml) if not (0.0 <= float(x) <= 1.0)]
    if bad:
        mon.violation('merged-line-confidence-in-unit-interval', {'written_to_page_xml': bad[:4]})
    mon.mark_nontrivial()


def check_uncertain_word(case, mon, ctx):
    """a line of confident words (every letter's posterior within 1e-5 of 1, or exactly 1) with one word whose letters are tied 0.5 / 0.5 with another symbol:
    the exported confidence of that word is (about) 0 - unless the line's median letter confidence is EXACTLY 1, for which the exporter writes 1 for every word"""
    L = ctx.layout
    rng = np.random.default_rng(case['seed'])
    chars = list('abcdefg') + [' ']
    C = len(chars) + 1
    nw = case['words']
    words = [''.join(chars[int(k)] for k in rng.integers(0, 7, size=int(rng.integers(2, 6)))) for _ in range(nw)]
    bad = int(rng.integers(0, nw))
    words[bad] = ''.join(chars[int(k)] for k in rng.integers(0, 3, size=int(rng.integers(1, 3))))          # the uncertain word is short: the line median stays with the confident letters
    text = ' '.join(words)
    path, owner, prev, w = [C - 1], [None], None, 0
    for ch in text:
        lab = chars.index(ch)
        if ch == ' ':
            w += 1
        if lab == prev:
            path.append(C - 1); owner.append(None)
        path.append(lab); owner.append(w if ch != ' ' else None)
        prev = lab
    path.append(C - 1); owner.append(None)
    T = len(path)
    lg = np.zeros((T, C))
    lg[np.arange(T), path] = case['margin']
    for t in range(T):
        if owner[t] == bad:
            lg[t] = -30.0
            lg[t, path[t]] = 5.0
            lg[t, 3 + (path[t] + 1) % 4] = 5.0            # a competitor that is none of the word's own letters (those are among a, b, c)
    lg[lg == 0] = 0.001
    baseline, heights, poly = genlib.straight_line_geometry(rng)
    page = L.PageLayout(id='p', page_size=(1500, 2000))
    reg = L.RegionLayout('r1', np.array([[0, 0], [2000, 0], [2000, 1500], [0, 1500]]))
    line = L.TextLine(id='r1-l1', baseline=baseline, polygon=poly, heights=heights, transcription=text, logits=sparse.csc_matrix(lg), characters=chars + ['<blank>'], logit_coords=[0, T])
    reg.lines.append(line); page.regions.append(reg)
    xml = page.to_altoxml_string()
    wc = [float(x) for x in re.findall(r'\bWC="([^"]*)"', xml)]
    if len(wc) != nw:
        return
    mon.count('uncertain_words_checked')
    mon.mark_nontrivial()
    med = line.transcription_confidence
    exactly_one = med is not None and float(med) == 1.0
    mon.count('lines_with_median_exactly_1' if exactly_one else 'lines_with_median_just_below_1')
    if not in_unit(wc):
        mon.violation('word-confidence-in-unit-interval', {'text': text, 'wc': wc})
    if not exactly_one and wc[bad] > 0.02:
        mon.violation('computed-from-normalised-posteriors', {'function': 'ALTO word confidence', 'text': text, 'uncertain_word': words[bad], 'word_confidences': wc, 'line_confidence': float(med),
                      'note': 'every letter of this word is tied 0.5 / 0.5 with another symbol; the line median is below 1'})
