"""C10 Line crops sample the band around the baseline, on every code path."""
import configparser
import contextlib
import io
import math

import numpy as np

ID = 'C10'
LEVEL = 'exploration'
TECHNIQUE = ('runtime monitoring: geometric oracle on the sampling grid returned by the real get_crop_inputs (uniform advance along the baseline, straight equidistant perpendicular '
             'columns spanning [-ascender, +descender]), float64 bilinear-sampling oracle for the pixels, fast-vs-general path and joint-shift differentials, and a recorder that '
             'exposes exceptions swallowed by the bare except in crop()')
RULE = ('baselines of 2-8 integer points, slope -58..58 deg, sagitta up to 6 px, length 40-1500 px, inside / partly outside / fully outside the page; heights 4-80; interpolation orders '
        '0/1/2; line heights 16-64; scale 0.8-1.5; images smooth / checkerboard / noise (3 channels); degenerate lines (single point, identical points, vertical, 1-3 px, zero heights) '
        'for the fallback clause; LineCropper.process_page through its real constructor. non-trivial = non-degenerate line with >= 3 points; distinct = hash of (baseline, heights, parameters) Baselines of 17-40 points; heights as list / tuple / float64 / float32 / int arrays; LineCropper.process_page a second time after the lines moved and with another image. Pages smaller than a crop; right-to-left baselines; the fallback crop after the caller wrote into an earlier one.')
RULE += ' Round 6: Pages with a side beyond 32767 px; grids for other row counts and a re-assigned line height; unsigned integer heights.'
RULE += ' Round 9: Every given baseline point lies on the baseline row (within 2 px); three-point parabolas with a sagitta of 5-9 px.'
RULE += ' Round 7: Outside lines starting exactly at the page edge; crops of one or two columns.'
ASSUMPTIONS = ['baselines are generated from a polynomial of degree <= the fitted degree, then rounded to integers (the cropper casts baselines to int)',
               'numeric bounds (constants below) were calibrated on the repaired tree with about a 2x margin', 'cv2.remap agrees with float64 bilinear sampling within 1 grey level',
               'joint-shift clause skipped when the rotated baseline length is within 1e-6 of an integer (np.arange length flips on round-off)',
               'degenerate lines are only required not to raise and to give the configured height']
N = {'quick': 1500, 'thorough': 100000}
CLASSES = ['inside', 'inside', 'curved', 'curved', 'partly_outside', 'outside', 'steep', 'short', 'degenerate', 'line_cropper', 'many_points', 'reversed', 'huge_page']
REQUIRED = ['three_point_parabolas', 'baseline_points_compared_with_the_baseline_row', 'crops_of_one_or_two_columns', 'outside_lines_starting_at_the_page_edge', 'lines_on_pages_over_32767_px', 'grids_for_another_row_count', 'heights_as:uint8_array', 'fallback_crops_after_the_caller_wrote_into_an_earlier_one', 'degenerate_lines_on_tiny_pages', 'line_cropper_second_pass_lines', 'heights_as:float64_array', 'many_point_grids', 'long_lived_cropper_crops', 'crops', 'grids_checked', 'curved_grids', 'pixels_compared', 'general_path_crops', 'fast_path_crops', 'shift_compared', 'degenerate_checked', 'poly0_cubic_lines', 'line_cropper_lines']
# bounds (see DESIGN.md C10); measured maxima are reported in the evidence as observed_maxima
B_CHORD = 0.05        # relative non-uniformity of the advance along the baseline row
B_STEP = 0.02         # relative error of the mean advance vs (h_up+h_down)*scale/H (plus end effect 1/(W-1))
B_END_FIRST = 2.0     # px, first baseline sample vs first baseline point
B_FOLLOW = 2.0        # px, any given baseline point vs the polyline of baseline-row samples
B_END_LAST = 2.5      # px + one sampling step
B_COL_LIN = 2e-3      # px, deviation of a column from the straight equidistant segment between its ends
B_SPAN = 1e-3         # px, column length vs (h_up+h_down)*scale
B_PERP = 0.04         # |cos| between column and central-difference tangent of the baseline row
B_PIX = 1.0           # grey levels, crop vs float64 bilinear sampling at the returned coordinates
B_FASTGEN = 1.0       # grey levels, fast path vs direct full-image remap
B_SHIFT = 2.0         # grey levels, joint shift of image and baseline


def setup(ctx):
    from pero_ocr.core import crop_engine
    from pero_ocr.document_ocr import page_parser as pp
    from pero_ocr.core import layout
    from vf import hooks
    ctx.ce, ctx.pp, ctx.L = crop_engine, pp, layout
    ctx.swallowed = []

    def rec(name):
        def mk(f):
            def w(self, *a, **k):
                try:
                    return f(self, *a, **k)
                except BaseException as e:
                    ctx.swallowed.append((name, repr(e)[:200]))
                    raise
            return w
        return mk
    hooks.wrap(crop_engine.EngineLineCropper, 'get_crop_inputs', rec('get_crop_inputs'))
    hooks.wrap(crop_engine.EngineLineCropper, 'fast_remap', rec('fast_remap'))
    ctx.images = {}
    ctx.long_lived = {}      # one cropper per configuration, used for every case of this worker: results must not depend on what it cropped before


def image(ctx, kind, Himg=1000, Wimg=1400):
    key = (kind, Himg, Wimg)
    if key not in ctx.images:
        yy, xx = np.mgrid[0:Himg, 0:Wimg]
        if kind == 'smooth':
            img = np.stack([(xx * 0.2 + yy * 0.1) % 256, (xx * 0.05) % 256, (yy * 0.3) % 256], 2)
        elif kind == 'checker':
            img = np.stack([((xx // 7 + yy // 5) % 2) * 255, ((xx // 3) % 2) * 200, ((yy // 4) % 2) * 255], 2)
        else:
            img = np.random.default_rng(7).integers(0, 256, size=(Himg, Wimg, 3))
        ctx.images[key] = img.astype(np.uint8)
    return ctx.images[key]


def gen(rng, i, ctx):
    cls = CLASSES[i % len(CLASSES)]
    poly = int(rng.choice([0, 1, 2]))
    H = int(rng.choice([16, 32, 40, 48, 64]))
    scale = float(rng.choice([0.8, 1.0, 1.25, 1.5]))
    npts = int(rng.integers(2, 9))
    ang = math.radians(float(rng.uniform(-58, 58)))
    if cls == 'steep':
        ang = math.radians(float(rng.choice([-1, 1])) * float(rng.uniform(45, 59)))
    L = float(rng.uniform(40, 1500)) if cls != 'short' else float(rng.uniform(40, 80))
    if cls == 'many_points':
        npts = int(rng.integers(17, 41))
        L = max(L, 34.0 * npts)
    npts = max(2, min(npts, int(L // 30)))      # well-separated points: gaps of at least ~30 px
    deg = {0: 3, 1: 1, 2: 2}[poly]
    sag = 0.0
    if cls == 'curved' and deg >= 2:
        sag = float(rng.uniform(2, 6)) * float(rng.choice([-1, 1])) * min(1.0, L / 150.0)
        npts = max(npts, 4 if poly == 0 else 3)
        if poly == 2 and rng.random() < 0.4:
            # exactly as many points as the parabola has coefficients, and a clearly visible bend
            npts = 3
            sag = float(rng.uniform(5, 9)) * float(rng.choice([-1, 1])) * min(1.0, L / 150.0)
        L = max(L, 30.0 * npts)
    x0, y0 = float(rng.uniform(150, 400)), float(rng.uniform(300, 600))
    if cls == 'partly_outside':
        x0, y0 = float(rng.uniform(-200, 100)), float(rng.uniform(-50, 1050))
    elif cls == 'outside':
        x0, y0 = float(rng.uniform(1500, 3000)), float(rng.uniform(1100, 2000))
    ts = np.linspace(0, 1, npts)
    if npts > 2 and rng.random() < 0.5:
        # well-separated points: interior points jittered by at most a quarter of the regular spacing
        ts = ts.copy()
        ts[1:-1] += rng.uniform(-0.25, 0.25, npts - 2) / (npts - 1)
    loc = np.stack([ts * L, sag * 4 * ts * (1 - ts)], 1)
    R = np.array([[math.cos(ang), math.sin(ang)], [-math.sin(ang), math.cos(ang)]])
    pts = np.round(loc @ R + np.array([x0, y0]))
    heights = [float(rng.uniform(4, 60)), float(rng.uniform(2, 20))]
    case = {'cls': cls, 'poly': poly, 'H': H, 'scale': scale, 'baseline': pts.tolist(), 'heights': heights, 'image': str(rng.choice(['smooth', 'checker', 'noise'])),
            'sagitta': sag, 'shift': [int(rng.integers(1, 40)), int(rng.integers(1, 40))]}
    case['heights_as'] = ['list', 'tuple', 'float64_array', 'float32_array', 'int_array', 'uint8_array', 'uint16_array'][int(rng.integers(0, 7))]
    if case['heights_as'] in ('int_array', 'uint8_array', 'uint16_array'):
        case['heights'] = [float(int(h)) for h in heights]
    if case['heights_as'] == 'float32_array':
        case['heights'] = [float(np.float32(h)) for h in heights]      # the same numbers in every container
    if cls == 'degenerate':
        kind = str(rng.choice(['single_point', 'identical_points', 'vertical', 'tiny', 'zero_heights', 'zero_up']))
        case['degenerate'] = kind
        if kind == 'single_point':
            case['baseline'] = [[300.0, 300.0]]
        elif kind == 'identical_points':
            case['baseline'] = [[300.0, 300.0]] * int(rng.integers(2, 5))
        elif kind == 'vertical':
            case['baseline'] = [[300.0, 300.0], [300.0, float(300 + rng.integers(20, 300))]]
        elif kind == 'tiny':
            case['baseline'] = [[300.0, 300.0], [float(300 + rng.integers(1, 4)), 300.0]]
        elif kind == 'zero_heights':
            case['heights'] = [0.0, 0.0]
        else:
            case['heights'] = [0.0, float(rng.uniform(2, 10))]
        # a page (or strip) smaller than one line crop
        if rng.random() < 0.4:
            case['image_size'] = [[20, 900], [900, 20], [10, 10], [40, 31]][int(rng.integers(0, 4))]
            case['baseline'] = [[5.0, 5.0]] if kind in ('single_point',) else ([[5.0, 5.0], [5.0, 5.0]] if kind == 'identical_points' else case['baseline'])
    if cls == 'huge_page':
        # a page with a side of more than 32767 px (a scroll, a stitched newspaper strip); the line lies near its far end
        big_w = bool(rng.random() < 0.5)
        case['image_size'] = [260, 33200] if big_w else [33200, 320]
        L_ = float(rng.uniform(120, 220 if big_w else 250))
        a_ = math.radians(float(rng.uniform(-8, 8)))
        x0_, y0_ = (float(rng.uniform(32800, 32950)), float(rng.uniform(100, 160))) if big_w else (float(rng.uniform(30, 50)), float(rng.uniform(32900, 33100)))
        case['baseline'] = np.round(np.array([[x0_, y0_], [x0_ + L_ * math.cos(a_), y0_ + L_ * math.sin(a_)]])).tolist()
        case['heights'] = [float(rng.uniform(8, 30)), float(rng.uniform(3, 10))]
        case['heights_as'] = 'list'
        case['sagitta'] = 0.0
    if cls == 'outside' and (i // len(CLASSES)) % 2 == 1:
        # (round 7) wholly outside, but its band starts exactly at the first column right of the page / the first row below it (pages are 1000 x 1400)
        asc_, desc_ = float(int(rng.integers(6, 40))), float(int(rng.integers(2, 15)))
        L_ = float(int(rng.integers(60, 400)))
        if rng.random() < 0.5:
            y_ = float(int(rng.integers(200, 800)))
            case['baseline'] = [[1400.0, y_], [1400.0 + L_, y_]]
        else:
            x_ = float(int(rng.integers(100, 900)))
            case['baseline'] = [[x_, 1000.0 + asc_], [x_ + L_, 1000.0 + asc_]]
        case['heights'], case['heights_as'], case['scale'], case['sagitta'] = [asc_, desc_], 'list', 1.0, 0.0
        case['edge_outside'] = True
    if cls == 'short' and (i // len(CLASSES)) % 2 == 1:
        # (round 7) a short line of tall script: the crop is one or two columns wide
        a_ = math.radians(float(rng.uniform(-10, 10)))
        case['heights'], case['heights_as'], case['sagitta'] = [float(rng.uniform(100, 150)), float(rng.uniform(30, 60))], 'list', 0.0
        case['H'] = int(rng.choice([16, 20]))
        L_ = sum(case['heights']) * case['scale'] / case['H'] * float(rng.uniform(1.25, 2.9))       # one or two columns
        x_, y_ = float(rng.integers(300, 600)), float(rng.integers(300, 600))
        case['baseline'] = np.round(np.array([[x_, y_], [x_ + L_ * math.cos(a_), y_ + L_ * math.sin(a_)]])).tolist()
        case['narrow'] = True
    if cls == 'reversed':
        # written from right to left (a page scanned upside down): the same band, walked from the first point to the last
        case['baseline'] = case['baseline'][::-1]
    return case


def describe(case):
    return case


def bilinear(img, xy):
    x = xy[..., 0].astype(np.float64); y = xy[..., 1].astype(np.float64)
    Hh, Ww = img.shape[:2]
    x0 = np.floor(x).astype(int); y0 = np.floor(y).astype(int)
    fx = x - x0; fy = y - y0

    def g(yy, xx):
        inside = (xx >= 0) & (xx < Ww) & (yy >= 0) & (yy < Hh)
        v = np.zeros(xx.shape + (img.shape[2],))
        v[inside] = img[yy[inside], xx[inside]]
        return v
    return (g(y0, x0) * ((1 - fx) * (1 - fy))[..., None] + g(y0, x0 + 1) * (fx * (1 - fy))[..., None]
            + g(y0 + 1, x0) * ((1 - fx) * fy)[..., None] + g(y0 + 1, x0 + 1) * (fx * fy)[..., None])


def heights_object(case):
    """The heights in the container the callers really use: lists from XML, float64 arrays from the layout engines, ..."""
    h = case['heights']
    return {'list': list(h), 'tuple': tuple(h), 'float64_array': np.array(h, dtype=np.float64), 'float32_array': np.array(h, dtype=np.float32),
            'int_array': np.array(h, dtype=np.int64), 'uint8_array': np.array(h, dtype=np.uint8), 'uint16_array': np.array(h, dtype=np.uint16)}[case.get('heights_as', 'list')]


def check(case, mon, ctx):
    import cv2
    cls = case['cls']
    H, poly, scale = case['H'], case['poly'], case['scale']
    pts = np.array(case['baseline'], dtype=np.float64)
    hh = heights_object(case)
    eng = ctx.ce.EngineLineCropper(line_height=H, poly=poly, scale=scale)
    img = image(ctx, case['image']) if not case.get('image_size') else image(ctx, case['image'], *case['image_size'])
    if case.get('image_size') and cls == 'degenerate':
        mon.count('degenerate_lines_on_tiny_pages')
    if cls == 'huge_page':
        mon.count('lines_on_pages_over_32767_px')
    if cls == 'line_cropper':
        return check_line_cropper(case, mon, ctx)
    old_eng = ctx.long_lived.setdefault((H, poly, scale), ctx.ce.EngineLineCropper(line_height=H, poly=poly, scale=scale))
    del ctx.swallowed[:]
    with contextlib.redirect_stdout(io.StringIO()):
        try:
            crop = eng.crop(img, pts, hh)
        except BaseException as e:
            mon.violation('never-an-error', {'exception': repr(e)[:300]})
            return
        try:
            crop_old = old_eng.crop(img, pts, hh)
        except BaseException as e:
            crop_old = None
    mon.count('long_lived_cropper_crops')
    mon.count('heights_as:' + case.get('heights_as', 'list'))
    if not np.array_equal(np.asarray(hh, dtype=np.float64), np.asarray(heights_object(case), dtype=np.float64)) or not np.array_equal(pts, np.array(case['baseline'], dtype=np.float64)):
        mon.violation('cropping-leaves-the-line-unchanged', {'heights_given': case['heights'], 'heights_as': case.get('heights_as'), 'heights_after': np.asarray(hh, dtype=np.float64),
                      'baseline_changed': not np.array_equal(pts, np.array(case['baseline'], dtype=np.float64))})
    if crop_old is None or crop_old.shape != crop.shape or np.abs(crop_old.astype(int) - crop.astype(int)).max(initial=0) > 0:
        mon.violation('crop-independent-of-earlier-crops', {'note': 'a cropper that has cropped other lines before gives a different crop than a fresh one',
                      'fresh_shape': list(crop.shape), 'long_lived_shape': None if crop_old is None else list(crop_old.shape),
                      'config': {'poly': old_eng.poly, 'line_height': old_eng.line_height, 'scale': old_eng.scale}, 'configured': {'poly': poly, 'line_height': H, 'scale': scale}})
    del ctx.swallowed[:]
    mon.count('crops')
    import hashlib as _hl
    mon.observe('crop', [list(crop.shape), _hl.sha1(np.ascontiguousarray(crop).tobytes()).hexdigest()[:16]])
    if crop.shape[0] != H or crop.ndim != 3 or crop.shape[2] != 3:
        mon.violation('configured-height', {'shape': list(crop.shape), 'H': H})
    if cls == 'degenerate':
        mon.count('degenerate_checked')
        # the caller owns the crop it was given and may write into it; a later fallback crop of the same long-lived cropper is blank again
        if crop.flags.writeable and crop_old is not None and crop_old.flags.writeable:
            blank = crop.copy()
            crop[...] = 77
            crop_old[...] = 99
            with contextlib.redirect_stdout(io.StringIO()):
                try:
                    later = old_eng.crop(img, pts, hh)
                except BaseException as e:
                    mon.violation('never-an-error', {'exception': repr(e)[:300], 'step': 'second fallback crop'})
                    return
            mon.count('fallback_crops_after_the_caller_wrote_into_an_earlier_one')
            if later.shape != blank.shape or not np.array_equal(later, blank):
                mon.violation('crop-independent-of-earlier-crops', {'note': 'the fallback crop of a degenerate line is not blank after the caller wrote into an earlier fallback crop',
                              'shape': list(later.shape), 'values': np.unique(later)[:5]}, mechanism='fallback-crop-shared')
        return
    if case.get('edge_outside'):
        mon.count('outside_lines_starting_at_the_page_edge')
    if case.get('narrow') and crop.shape[1] <= 2:
        mon.count('crops_of_one_or_two_columns')
    if len(pts) >= 3:
        mon.mark_nontrivial()
    if poly == 0 and len(pts) >= 4:
        mon.count('poly0_cubic_lines')
    if ctx.swallowed:
        name, exc = ctx.swallowed[0]
        mon.violation('non-degenerate-line-is-actually-cropped', {'swallowed_in': name, 'exception': exc, 'crop_shape': list(crop.shape)})
        return
    hh = [float(x) for x in heights_object(case)]       # pristine values (as rounded by the container's dtype) for the oracle
    c = eng.get_crop_inputs(pts, heights_object(case), H).astype(np.float64)       # the grid of the crop above: same numbers in the same container

    def width_is_borderline():
        """the column count int(length * H / band) flips when the heights change by one part in 1e9: its argument is within round-off of an integer"""
        lo = eng.get_crop_inputs(pts, [h * (1 - 1e-9) for h in hh], H).shape[1]
        hi = eng.get_crop_inputs(pts, [h * (1 + 1e-9) for h in hh], H).shape[1]
        return lo != hi
    mon.count('grids_checked')
    if len(pts) > 16:
        mon.count('many_point_grids')
    if abs(case['sagitta']) >= 2:
        mon.count('curved_grids')
    Hh, Ww = c.shape[:2]
    band = (hh[0] + hh[1]) * scale
    # the grid for another number of rows (the ALTO exporter asks a default cropper for 16): that many rows over the same band; and a cropper whose configured
    # height is re-assigned after construction crops to the new height
    Ht = [16, 24, 2 * H + 1][(len(pts) + H) % 3]
    c_t = eng.get_crop_inputs(pts, heights_object(case), Ht).astype(np.float64)
    mon.count('grids_for_another_row_count')
    span_t = np.linalg.norm(c_t[-1] - c_t[0], axis=1) if c_t.shape[0] == Ht and c_t.shape[1] else np.array([np.nan])
    if c_t.shape[0] != Ht or not np.all(np.abs(span_t - band) <= B_SPAN * max(1.0, band)):
        mon.violation('rows-span-ascender-to-descender', {'note': 'grid requested with %d rows from a cropper configured for %d' % (Ht, H), 'shape': list(c_t.shape), 'span_min': float(np.nanmin(span_t)),
                      'span_max': float(np.nanmax(span_t)), 'expected': band})
    eng2 = ctx.ce.EngineLineCropper(line_height=H, poly=poly, scale=scale)
    eng2.line_height = Ht
    with contextlib.redirect_stdout(io.StringIO()):
        crop_t = eng2.crop(img, pts, heights_object(case))
    # (its width is that of the grid for the new height; a blank crop by itself says nothing - the line may lie outside the page)
    if crop_t.shape[0] != Ht or abs(crop_t.shape[1] - c_t.shape[1]) > 1:
        mon.violation('configured-height', {'note': 'line_height re-assigned from %d to %d after construction' % (H, Ht), 'shape': list(crop_t.shape)})
    step = band / H
    if crop.shape[1] != Ww:
        if abs(crop.shape[1] - Ww) == 1 and width_is_borderline():
            mon.skip_ambiguous('near-integer column count')
            return
        mon.violation('crop-width-equals-grid-width', {'crop': list(crop.shape), 'grid': [Hh, Ww]})
        return
    seg = np.linalg.norm(np.diff(pts, axis=0), axis=1).sum()
    exp_w = seg / step
    mon.observe_max('width_deficit_columns', exp_w - Ww)
    mon.observe_max('width_excess_columns', Ww - exp_w)
    if not (-(0.02 * exp_w + 1) <= exp_w - Ww <= 2 / step + 2 + 0.01 * exp_w):
        mon.violation('width-is-baseline-length-times-height-over-line-height', {'width': Ww, 'expected': exp_w, 'step': step})
    if Ww < 3:
        return
    frac = hh[0] / (hh[0] + hh[1]) * (Hh - 1)
    r0 = int(np.floor(frac)); a = frac - r0
    base = c[r0] * (1 - a) + c[min(r0 + 1, Hh - 1)] * a
    ch = np.linalg.norm(np.diff(base, axis=0), axis=1)
    m_chord = float(np.abs(ch / ch.mean() - 1).max())
    mon.observe_max('chord_nonuniformity', m_chord)
    if m_chord > B_CHORD:
        mon.violation('columns-advance-uniformly-along-the-baseline', {'max_relative_deviation': m_chord})
    m_step = abs(ch.mean() / step - 1)
    # the sample count is int(arc/step): the mean advance can exceed the nominal step by up to 2/(W-1) relative
    mon.observe_max('mean_step_error_minus_end_effect', m_step - 2.0 / (Ww - 1))
    if m_step > B_STEP + 2.0 / (Ww - 1) + 1.0 / max(seg, 1):
        mon.violation('columns-advance-uniformly-along-the-baseline', {'mean_step': float(ch.mean()), 'expected_step': step})
    d_first = float(np.linalg.norm(base[0] - pts[0])); d_last = float(np.linalg.norm(base[-1] - pts[-1]) - step)
    mon.observe_max('first_point_px', d_first); mon.observe_max('last_point_px_minus_step', d_last)
    if d_first > B_END_FIRST or d_last > B_END_LAST:
        mon.violation('from-first-to-last-baseline-point', {'first_sample': base[0], 'first_point': pts[0], 'last_sample': base[-1], 'last_point': pts[-1]})
    # the baseline row follows the baseline: every given point (the generated baselines are polynomials of at most the fitted degree, rounded to pixels)
    # lies on the polyline of baseline-row samples; the last point may lie up to one step beyond the last sample
    seg_a, seg_b = base[:-1], base[1:]
    far = 0.0
    for q in np.asarray(pts, dtype=np.float64)[:-1]:
        ab = seg_b - seg_a
        tt = np.clip(((q - seg_a) * ab).sum(1) / np.maximum((ab * ab).sum(1), 1e-12), 0.0, 1.0)
        far = max(far, float(np.linalg.norm(seg_a + tt[:, None] * ab - q, axis=1).min()))
    mon.count('baseline_points_compared_with_the_baseline_row', len(pts) - 1)
    mon.observe_max('baseline_point_off_the_baseline_row_px', far)
    if len(pts) == 3 and poly == 2 and abs(case['sagitta']) >= 5:
        mon.count('three_point_parabolas')
    if far > B_FOLLOW:
        mon.violation('columns-advance-along-the-baseline', {'max_distance_of_a_baseline_point_from_the_baseline_row_px': far, 'points': len(pts), 'poly': poly, 'sagitta': case['sagitta']})
    # advance direction: from first towards last
    if np.dot(base[-1] - base[0], pts[-1] - pts[0]) <= 0:
        mon.violation('from-first-to-last-baseline-point', {'note': 'grid runs backwards'})
    col = c[-1] - c[0]
    span = np.linalg.norm(col, axis=1)
    mon.observe_max('column_span_error_px', float(np.abs(span - band).max()))
    if np.abs(span - band).max() > B_SPAN * max(1.0, band):
        mon.violation('rows-span-ascender-to-descender', {'span_min': float(span.min()), 'span_max': float(span.max()), 'expected': band})
    lin = float(np.abs(c - (c[0][None] + (np.arange(Hh) / (Hh - 1))[:, None, None] * col[None])).max())
    mon.observe_max('column_nonlinearity_px', lin)
    if lin > B_COL_LIN * max(1.0, band / 10) + 2 * float(np.spacing(np.float32(np.abs(c).max()))):          # (+ the float32 grid's own resolution at these coordinates)
        mon.violation('rows-run-linearly', {'max_deviation_px': lin})
    tang = np.gradient(base, axis=0)
    tang /= np.linalg.norm(tang, axis=1)[:, None]
    coln = col / span[:, None]
    down = np.stack([-tang[:, 1], tang[:, 0]], 1)
    if float((down * coln).sum(1).min()) <= 0:
        mon.violation('first-row-is-above-the-baseline', {'min_dot': float((down * coln).sum(1).min())})
    perp = np.abs((coln * tang).sum(1))
    mon.observe_max('perpendicularity_abs_cos', float(perp.max()))
    if perp.max() > B_PERP:
        k = int(perp.argmax())
        # classify the mirrored-normal mechanism: the column is perpendicular to the tangent with its slope negated in the baseline's own frame
        mon.violation('rows-perpendicular-to-the-baseline', {'max_abs_cos': float(perp.max()), 'column': k, 'sagitta': case['sagitta'], 'poly': poly})
    # pixels
    ref = bilinear(img, c)
    mon.count('pixels_compared')
    dpix = float(np.abs(crop.astype(np.float64) - ref).max())
    mon.observe_max('pixels_vs_bilinear', dpix)
    if dpix > B_PIX + 0.51:
        mon.violation('pixels-sample-the-grid', {'max_abs_diff': dpix})
    c32 = c.astype(np.float32)
    if max(img.shape[:2]) >= 32767:
        return          # (cv2.remap refuses a source of that size: no direct full-image reference, no padded copy for the joint shift; the float64 oracle above stands)
    full = cv2.remap(img, c32[..., 0], c32[..., 1], interpolation=cv2.INTER_LINEAR, borderMode=cv2.BORDER_CONSTANT)
    inside = c32[..., 0].min() >= 0 and c32[..., 1].min() >= 0 and np.ceil(c32[..., 0].max()) <= img.shape[1] - 1 and np.ceil(c32[..., 1].max()) <= img.shape[0] - 1
    mon.count('fast_path_crops' if inside else 'general_path_crops')
    dfg = float(np.abs(full.astype(int) - crop.astype(int)).max())
    mon.observe_max('fast_vs_general', dfg)
    if dfg > B_FASTGEN:
        mon.violation('same-pixels-on-fast-and-general-path', {'max_abs_diff': dfg, 'path': 'fast' if inside else 'general'})
    # joint shift of image and baseline by an integer border
    alfa = math.atan2(pts[-1, 1] - pts[0, 1], pts[-1, 0] - pts[0, 0])
    rl = np.hypot(pts[-1, 0] - pts[0, 0], pts[-1, 1] - pts[0, 1])
    Rm = np.array([[np.cos(alfa), np.sin(alfa)], [-np.sin(alfa), np.cos(alfa)]])
    loc = pts.astype(int) @ np.linalg.inv(Rm)
    span_x = loc[:, 0].max() - loc[:, 0].min()
    v_cols = (math.ceil(span_x) - 1) * H / band          # the column count of a straight line before truncation to an integer
    if abs(span_x - round(span_x)) < 1e-6:
        mon.skip_ambiguous('near-integer rotated length')
    elif abs(v_cols - round(v_cols)) < 1e-6:
        mon.skip_ambiguous('near-integer column count')   # e.g. integer heights: 903 * 32 / 84 = 344 exactly; int() flips on round-off
    else:
        dx, dy = case['shift']
        big = np.zeros((img.shape[0] + 2 * dy, img.shape[1] + 2 * dx, 3), np.uint8)
        big[dy:dy + img.shape[0], dx:dx + img.shape[1]] = img
        with contextlib.redirect_stdout(io.StringIO()):
            crop2 = eng.crop(big, pts + [dx, dy], heights_object(case))
        mon.count('shift_compared')
        if crop2.shape != crop.shape:
            if crop2.shape[0] == crop.shape[0] and abs(crop2.shape[1] - crop.shape[1]) == 1 and width_is_borderline():
                mon.skip_ambiguous('near-integer column count')
            else:
                mon.violation('same-pixels-when-shifted-together', {'shape': list(crop2.shape), 'expected': list(crop.shape)})
        else:
            d = float(np.abs(crop2.astype(int) - crop.astype(int)).max())
            mon.observe_max('shift_diff', d)
            if d > B_SHIFT:
                mon.violation('same-pixels-when-shifted-together', {'max_abs_diff': d, 'shift': [dx, dy]})


def check_line_cropper(case, mon, ctx):
    L = ctx.L
    cfg = configparser.ConfigParser()
    cfg.read_dict({'LINE_CROPPER': {'INTERP': str(case['poly']), 'LINE_SCALE': str(case['scale']), 'LINE_HEIGHT': str(case['H'])}})
    lc = ctx.pp.LineCropper(cfg['LINE_CROPPER'])
    img = image(ctx, case['image'])
    pl = L.PageLayout(id='p', page_size=img.shape[:2])
    reg = L.RegionLayout('r', np.array([[0, 0], [1400, 0], [1400, 1000], [0, 1000]]))
    pts = np.array(case['baseline'])
    reg.lines.append(L.TextLine(id='l1', baseline=np.array([[300.0, 300.0], [300.0, 500.0]]), heights=[10.0, 5.0]))       # vertical
    reg.lines.append(L.TextLine(id='l2', baseline=np.array([[300.0, 300.0]]), heights=[10.0, 5.0]))                       # single point
    reg.lines.append(L.TextLine(id='l3', baseline=np.array([[100.0, 700.0], [400.0, 705.0]]), heights=[20.0, 6.0]))        # two-point line
    reg.lines.append(L.TextLine(id='l4', baseline=np.array([[100.0, 800.0], [250.0, 803.0], [400.0, 801.0]]), heights=[20.0, 6.0]))   # three points
    reg.lines.append(L.TextLine(id='l0', baseline=pts, heights=heights_object(case)))                                      # the case's line, cropped LAST
    pl.regions.append(reg)
    del ctx.swallowed[:]
    with contextlib.redirect_stdout(io.StringIO()):
        try:
            lc.process_page(img, pl)
        except BaseException as e:
            mon.violation('never-an-error', {'via': 'LineCropper.process_page', 'exception': repr(e)[:300]})
            return
    for line in reg.lines:
        mon.count('line_cropper_lines')
        if line.crop is None or line.crop.shape[0] != case['H']:
            mon.violation('configured-height', {'via': 'LineCropper.process_page', 'line': line.id, 'shape': None if line.crop is None else list(line.crop.shape)})
    eng = ctx.ce.EngineLineCropper(line_height=case['H'], poly=case['poly'], scale=case['scale'])
    with contextlib.redirect_stdout(io.StringIO()):
        direct = eng.crop(img, pts, heights_object(case))
    last = reg.lines[-1]
    if last.crop is not None and (last.crop.shape != direct.shape or np.abs(last.crop.astype(int) - direct.astype(int)).max(initial=0) > 0):
        mon.violation('crop-independent-of-earlier-crops', {'via': 'LineCropper.process_page: the last line of a page vs the same line on a fresh cropper', 'shape': list(last.crop.shape), 'expected': list(direct.shape)})

    # history on one layout and one long-lived LineCropper: the page is processed again after its lines moved and with another page image
    img2 = image(ctx, {'smooth': 'checker', 'checker': 'noise', 'noise': 'smooth'}[case['image']])
    sx, sy = case['shift']
    moved = {}
    for line in reg.lines:
        line.baseline = np.asarray(line.baseline, dtype=np.float64) + np.array([sx, sy], dtype=np.float64)
        line.heights = [float(line.heights[0]) + 3.0, float(line.heights[1]) + 1.0]
        moved[line.id] = (line.baseline.copy(), list(line.heights))
    with contextlib.redirect_stdout(io.StringIO()):
        try:
            lc.process_page(img2, pl)
        except BaseException as e:
            mon.violation('never-an-error', {'via': 'LineCropper.process_page, second pass', 'exception': repr(e)[:300]})
            return
        for line in reg.lines[2:]:
            mon.count('line_cropper_second_pass_lines')
            b, h = moved[line.id]
            direct = ctx.ce.EngineLineCropper(line_height=case['H'], poly=case['poly'], scale=case['scale']).crop(img2, b, h)
            if line.crop is None or line.crop.shape != direct.shape or np.abs(line.crop.astype(int) - direct.astype(int)).max(initial=0) > 0:
                mon.violation('crop-independent-of-earlier-crops', {'via': 'LineCropper.process_page on a page that was processed before: the crop is not the band around the current baseline in the current image',
                              'line': line.id, 'shape': None if line.crop is None else list(line.crop.shape), 'expected': list(direct.shape)}, mechanism='second-pass-stale-crop')
