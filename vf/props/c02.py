"""C02 CTC prefix beam search never over-counts and is exact when unpruned."""
import itertools

import numpy as np

from vf.oracles import ctc

ID = 'C02'
LEVEL = 'exploration'
TECHNIQUE = ('runtime monitoring: per-frame recorder on top_k / find_new_prefixes / adjust_for_prefix_joining (beam validity, no duplicate prefixes) '
             'and reference-model oracles (CTC forward recursion, brute-force transcript table, dictionary prefix beam search) on every execution')
RULE = ('row-normalised log-prob matrices T(1-12) x C(2-6), blank last; classes: dense random at several temperatures, near-one-hot, rows with exact '
        'zeros (-inf), rows where every non-blank is below the pre-selection threshold, repeated symbols with/without separating blank, constant rows, '
        'two-level rows (ties); beam widths {1,2,3,5,8,50,5000}; default selector and non-pruning selectors (ascending and best-first symbol order); unnormalised variants for the guard. '
        'non-trivial = at least two hypotheses returned or a frame where pruning removed a finite candidate; distinct = hash of (matrix, k, selector) Alphabets with a blank character; symbols exactly on the pre-selection threshold (-10.0 +- 1 ulp); every matrix also decoded by a long-lived decoder object. LM-free decoders built with an insertion bonus; single-precision large-alphabet matrices for the guard.')
RULE += ' Round 6: A re-used buffer overwritten in place with unnormalised scores; frames within the guard tolerance with one symbol one ulp around the pruning threshold.'
RULE += ' Round 7: Alphabets just beyond 256 / 65536 classes with two occurring symbols of congruent index; caller-supplied normalisation tolerances.'
ASSUMPTIONS = ['ties at a pruning boundary (k-th vs (k+1)-th candidate within 1e-9) make the beam-equality clause ambiguous for that case; the frame recorder '
               'still validates the implementation\'s own choice there',
               'the reference search re-ranks only on frames that offer at least one candidate symbol, as the statement\'s "per-frame symbol pre-selection" implies for frames with none',
               'brute force over all alignments only for C^T <= 4096']
N = {'quick': 3000, 'thorough': 200000}
CLASSES = ['rand', 'peaky', 'onehot', 'zeros', 'allpruned', 'repeats', 'const', 'twolevel', 'unpruned_small', 'unnormalised', 'threshold', 'index_wrap']
REQUIRED = ['call_tolerance_checked', 'reused_buffers_checked', 'decoders_with_insertion_bonus_and_no_lm', 'float32_large_alphabet_guard_checked', 'long_lived_decoder_reused', 'alphabets_with_white_space', 'threshold_symbols', 'bestfirst_selector_decodes', 'decodes', 'overcount_checked', 'beam_compared', 'unpruned_compared', 'frames_monitored', 'frames_pruned', 'joins_observed', 'guard_checked']
EXHAUSTIVE_KEY = 'exhaustive_matrices'
EXHAUSTIVE_NOTE = 'all matrices with two-level rows (weights in {1,2}), C = 3, T <= 2 (quick) / T <= 3 (thorough), every k in {1,2,3,50}, both selectors'
KS = [1, 2, 3, 5, 8, 50]


def nonpruning(l):
    return np.nonzero(l > -np.inf)


def nonpruning_bestfirst(l):
    """also non-pruning, but hands the symbols over best first (not in ascending index order)"""
    idx = np.nonzero(l > -np.inf)[0]
    return (idx[np.argsort(-l[idx], kind='stable')],)


def setup(ctx):
    from pero_ocr.decoding import decoders
    from vf import hooks
    ctx.D = decoders
    ctx.rec = []
    ctx.long_lived = {}

    def mk_topk(f):
        def w(a, k, reverse=False):
            r = f(a, k, reverse=reverse)
            ctx.rec.append(('topk', np.array(a, copy=True), k, tuple(np.asarray(x).copy() for x in r) if isinstance(r, tuple) else r))
            return r
        return w

    def mk_fnp(f):
        def w(prev, best, A, blank):
            r = f(prev, best, A, blank)
            ctx.rec.append(('prefixes', [tuple(p) for p in r[0]]))
            return r
        return w

    def mk_join(f):
        def w(P, A, last):
            before = np.array(P, copy=True)
            r = f(P, A, last)
            ctx.rec.append(('join', int((before != P).sum() // 2), float(np.logaddexp.reduce(before[np.isfinite(before)])) if np.isfinite(before).any() else None,
                            float(np.logaddexp.reduce(P[np.isfinite(P)])) if np.isfinite(P).any() else None))
            return r
        return w
    hooks.wrap(decoders, 'top_k', mk_topk)
    hooks.wrap(decoders, 'find_new_prefixes', mk_fnp)
    hooks.wrap(decoders, 'adjust_for_prefix_joining', mk_join)


def make_matrix(rng, kind, T, C):
    if kind == 'onehot':
        p = np.full((T, C), 1e-12 if rng.random() < 0.5 else 0.0)
        p[np.arange(T), rng.integers(0, C, T)] = 1.0
    elif kind == 'zeros':
        p = rng.random((T, C))
        p[rng.random((T, C)) < 0.4] = 0
        p[p.sum(1) == 0, -1] = 1
    elif kind == 'allpruned':
        p = np.full((T, C), 1e-6)
        p[:, -1] = 1
        for t in range(T):
            if rng.random() < 0.5:
                p[t] = rng.random(C)
    elif kind == 'repeats':
        sym = int(rng.integers(0, C - 1))
        p = np.full((T, C), 0.02)
        for t in range(T):
            p[t, sym if rng.random() < 0.6 else C - 1] = 1.0
        p += rng.random((T, C)) * 0.05
    elif kind == 'threshold':
        # non-blank symbols sitting exactly on the pre-selection threshold (log-probability bit-equal to -10.0) or one ulp beside it
        lp = np.empty((T, C))
        for t in range(T):
            if rng.random() < 0.3:
                # a frame as a single-precision soft-max leaves it: the blank takes all but 4.4e-5, one symbol sits just above the threshold, the row sums to 1 + 3e-6
                lp[t] = -30.0
                lp[t, -1] = np.log1p(-4.4e-5)
                lp[t, int(rng.integers(0, C - 1))] = float(rng.uniform(-9.99, -9.9))
                continue
            on = rng.random(C) < 0.5
            on[-1] = False
            if on.sum() == C - 1 and rng.random() < 0.5:
                pass                                     # every non-blank symbol on the threshold: a blank-only frame for a strict '>' rule
            vals = np.where(on, rng.choice([-10.0, np.nextafter(-10.0, 0), np.nextafter(-10.0, -20)], size=C), 0.0)
            rest = rng.random(C) + 0.05
            rest[on] = 0
            rest = rest / rest.sum() * (1.0 - np.exp(vals[on]).sum())
            with np.errstate(divide='ignore'):
                lp[t] = np.where(on, vals, np.log(rest))
        return lp
    elif kind == 'const':
        p = np.ones((T, C))
    elif kind == 'twolevel':
        p = rng.integers(1, 3, size=(T, C)).astype(float)
    elif kind == 'peaky':
        p = np.exp(rng.normal(size=(T, C)) * float(rng.choice([8, 20])))
    else:
        p = np.exp(rng.normal(size=(T, C)) * float(rng.choice([0.3, 1, 3])))
    p = p / p.sum(1, keepdims=True)
    with np.errstate(divide='ignore'):
        return np.log(p)


def gen(rng, i, ctx):
    cls = CLASSES[i % len(CLASSES)]
    C = int(rng.integers(2, 7))
    T = int(rng.integers(1, 13))
    k = int(rng.choice(KS))
    default_sel = bool(rng.random() < 0.5)
    kind = cls
    if cls == 'unpruned_small':
        C = int(rng.integers(2, 5))
        T = int(rng.integers(1, 6))
        while C ** T > 4096:
            T -= 1
        k = 5000
        default_sel = False
        kind = str(rng.choice(['rand', 'zeros', 'twolevel', 'onehot', 'repeats', 'const']))
    if cls == 'unnormalised':
        kind = 'rand'
    if cls == 'threshold':
        default_sel = True
        k = int(rng.choice([3, 8, 50]))
    if cls == 'index_wrap':
        # alphabets just beyond 256 / 65536 classes in which two symbols whose indices are congruent modulo that size both occur: after two frames the beam holds
        # [d], [s1] and [s2, d] while [s2] has been pruned, so nothing may be merged into [s2, d] in the third frame
        M = 65536 if (i // len(CLASSES)) % 6 == 0 else 256
        NB = M + int(rng.integers(3, 12))
        s1 = int(rng.integers(0, 3))
        s2 = s1 + M
        d = int(rng.integers(3, 8)) if rng.random() < 0.7 else M + 2
        p0, a = float(rng.uniform(0.55, 0.7)), float(rng.uniform(0.46, 0.53))
        b = float(rng.uniform(0.40, min(a - 0.02, 0.97 - a)))
        T = 3 + int(rng.integers(0, 3))
        p = np.zeros((T, NB + 1))
        p[0, NB], p[0, s2] = p0, 1 - p0
        p[1, d], p[1, s1], p[1, NB] = a, b, 1 - a - b
        for t in range(2, T):
            q = float(rng.uniform(0.3, 0.7))
            p[t, d if rng.random() < 0.7 else s1], p[t, NB] = q, 1 - q
        with np.errstate(divide='ignore'):
            lp = np.log(p)
        return {'cls': cls, 'lp': lp, 'k': int(rng.choice([3, 3, 4])), 'default_selector': bool(rng.random() < 0.5)}
    lp = make_matrix(rng, kind, T, C)
    case = {'cls': cls, 'lp': lp, 'k': k, 'default_selector': default_sel}
    if cls == 'unnormalised':
        how = str(rng.choice(['scaled', 'raw', 'one_row', 'slightly', 'float32_large_alphabet', 'call_tolerance']))
        if how == 'float32_large_alphabet':
            # single-precision network output over a large alphabet, one frame off by a few 1e-5
            p = rng.random((int(rng.integers(1, 5)), int(rng.choice([300, 1000])))) ** 8 + 1e-9
            lp32 = np.log(p / p.sum(1, keepdims=True))
            lp32[int(rng.integers(0, lp32.shape[0]))] += float(rng.choice([6e-5, 4e-5, -5e-5]))
            return {'cls': cls, 'lp': lp32.astype(np.float32), 'k': 2, 'default_selector': True, 'how': how}
        if how == 'call_tolerance':
            # the caller passes its own tolerance; one row sums to 1 +- 1.1..1.3 tolerances (must be rejected) or to within half a tolerance (must be decoded)
            lp = lp.copy()
            lp[~np.isfinite(lp)] = -30.0
            lp = lp - np.logaddexp.reduce(lp, axis=1, keepdims=True)
            tol = float(rng.choice([0.5, 0.1, 0.01]))
            f = float(rng.choice([1.1, 1.3, -1.1, -1.3, 0.4, -0.4]))
            lp[int(rng.integers(0, T))] += np.log1p(f * tol)
            return {'cls': cls, 'lp': lp, 'k': k, 'default_selector': True, 'how': how, 'tol': tol, 'factor': f}
        lp = lp.copy()
        lp[~np.isfinite(lp)] = -30.0
        if how == 'scaled':
            lp = lp + float(rng.choice([-1.0, 0.5, 2.0]))
        elif how == 'raw':
            lp = rng.normal(size=lp.shape) * 3 + 1
        elif how == 'one_row':
            lp[int(rng.integers(0, T))] += 0.3
        else:
            lp[int(rng.integers(0, T))] += float(rng.choice([1e-3, -1e-3]))
        case['lp'] = lp
        case['how'] = how
    return case


def describe(case):
    return {'cls': case['cls'], 'k': case['k'], 'default_selector': case['default_selector'], 'log_probs': case['lp']}


def check_frames(rec, k, mon, info):
    """offline checker over the per-frame event log of one decode"""
    pruned_any = False
    for e in rec:
        if e[0] == 'topk':
            _, a, kk, idx = e
            mon.count('frames_monitored')
            if not isinstance(idx, tuple):
                mon.violation('frame-topk-valid', dict(info, note='top_k returned a non-index result', k=kk, shape=list(a.shape)))
                continue
            nfin = int(np.isfinite(a).sum())
            cells = list(zip(*[i.tolist() for i in idx]))
            sel = a[idx]
            if kk != min(k, nfin) or len(cells) != kk or len(set(cells)) != kk:
                mon.violation('frame-topk-count', dict(info, requested=kk, k=k, finite=nfin, cells=cells))
                continue
            mask = np.ones(a.shape, bool)
            mask[idx] = False
            rest = a[mask]
            if not np.all(np.isfinite(sel)):
                mon.violation('frame-topk-valid', dict(info, note='a -inf candidate was kept', selected=sel))
            if rest.size and np.isfinite(rest).any():
                mon.count('frames_pruned')
                pruned_any = True
                if sel.min() < rest.max():
                    mon.violation('frame-topk-valid', dict(info, note='a kept candidate scores below a dropped one', kept_min=float(sel.min()), dropped_max=float(rest.max())))
        elif e[0] == 'prefixes':
            if len(set(e[1])) != len(e[1]):
                mon.violation('frame-distinct-prefixes', dict(info, beam=e[1]))
        elif e[0] == 'join':
            if e[1]:
                mon.count('joins_observed', e[1])
            if e[2] is not None and e[3] is not None and abs(e[2] - e[3]) > 1e-9:
                mon.violation('frame-join-conserves-mass', dict(info, before=e[2], after=e[3]))
    return pruned_any


def decode_and_check(lp, k, default_sel, mon, ctx, info, compare_beam=True):
    D = ctx.D
    C = lp.shape[1]
    letters = [chr((0x61 if C < 200 else 0x20000) + c) for c in range(C - 1)]
    # real alphabets contain white space: as the first or the last symbol in two thirds of the decodes
    alpha = (int(lp.shape[0]) + C) % 3
    if alpha == 1:
        letters[0] = ' '
        mon.count('alphabets_with_white_space')
    elif alpha == 2:
        letters[-1] = ' '
        mon.count('alphabets_with_white_space')
    bestfirst = bool((int(lp.shape[0]) + k) % 2)

    # a configured insertion bonus belongs to the LM score; without an LM the visual scores are the CTC scores whatever its value
    bonus = [0.0, 0.5, 2.0][(int(lp.shape[0]) + 2 * k) % 3]
    if bonus:
        mon.count('decoders_with_insertion_bonus_and_no_lm')

    def make():
        if default_sel:
            return D.CTCPrefixLogRawNumpyDecoder(letters + [D.BLANK_SYMBOL], k=k, insertion_bonus=bonus)
        return D.CTCPrefixLogRawNumpyDecoder(letters + [D.BLANK_SYMBOL], k=k, relevant_logits_selector=nonpruning_bestfirst if bestfirst else nonpruning, insertion_bonus=bonus)
    dec = make()
    if default_sel:
        selector = lambda row, c: row[c] > -10
    else:
        if bestfirst:
            mon.count('bestfirst_selector_decodes')
        selector = lambda row, c: row[c] > -np.inf
    del ctx.rec[:]
    try:
        boh = dec(lp.copy())
    except Exception as e:
        mon.violation('decode-raises', dict(info, exception=repr(e)[:300]))
        return None
    mon.count('decodes')
    hyps = [(h.transcript, float(h.vis_sc)) for h in boh]
    # history: a decoder object that has decoded other matrices before (decode_page keeps one for the whole run) returns the same bag
    key = (tuple(letters), k, default_sel, bestfirst, bonus)
    old = ctx.long_lived.get(key)
    if old is None:
        old = ctx.long_lived[key] = make()
    else:
        mon.count('long_lived_decoder_reused')
    rec_keep = list(ctx.rec)
    buf = lp.copy()
    try:
        hyps_old = [(h.transcript, float(h.vis_sc)) for h in old(buf)]
    except Exception as e:
        hyps_old = repr(e)[:300]
    # ... and the caller re-uses that buffer for unnormalised scores: the same decoder must reject it now
    if isinstance(hyps_old, list) and np.isfinite(buf).all():
        buf += 0.4
        mon.count('reused_buffers_checked')
        try:
            old(buf)
            mon.violation('unnormalised-rejected', dict(info, note='the array decoded a moment ago was overwritten in place with unnormalised scores and decoded again by the same decoder', decoder='CTCPrefixLogRawNumpyDecoder'))
        except ValueError:
            pass
        except Exception as e:
            mon.violation('decode-raises', dict(info, exception=repr(e)[:300], step='re-used buffer'))
    ctx.rec[:] = rec_keep
    mon.count('long_lived_decoder_decodes')
    if hyps_old != hyps:
        mon.violation('decode-independent-of-earlier-decodes', dict(info, fresh_decoder=hyps[:6], long_lived_decoder=hyps_old[:6] if isinstance(hyps_old, list) else hyps_old))
    mon.observe('hypotheses', [(t, round(v, 9)) for t, v in hyps])
    pruned_any = check_frames(list(ctx.rec), k, mon, info)
    if len(set(t for t, _ in hyps)) != len(hyps):
        mon.violation('distinct-transcripts', dict(info, hyps=hyps))
    if len(hyps) > k:
        mon.violation('at-most-k-hypotheses', dict(info, n=len(hyps)))
    got = {}
    index_of = {ch: n for n, ch in enumerate(letters)}
    for tr, sc in hyps:
        seq = tuple(index_of[ch] for ch in tr)
        got[seq] = sc
        true = ctc.ctc_logprob(lp, list(seq))
        mon.count('overcount_checked')
        if sc > true + 1e-9:
            mon.violation('never-over-counts', dict(info, transcript=tr, vis_sc=sc, ctc_logprob=float(true)))
    if compare_beam:
        ref, amb = ctc.ref_beam(lp, k, selector)
        if amb:
            mon.skip_ambiguous('beam-tie')
        else:
            mon.count('beam_compared')
            if set(got) != set(ref):
                mon.violation('equals-frame-synchronous-beam-search', dict(info, got=sorted(got), expected=sorted(ref)))
            else:
                for p in ref:
                    if np.isfinite(ref[p]) and abs(got[p] - ref[p]) > 1e-9:
                        mon.violation('equals-frame-synchronous-beam-search', dict(info, prefix=p, got=got[p], expected=ref[p]))
                        break
    return got, pruned_any, len(hyps)


def check(case, mon, ctx):
    lp, k, dsel = case['lp'], case['k'], case['default_selector']
    D = ctx.D
    info = {}
    if case['cls'] == 'unnormalised':
        C = lp.shape[1]
        letters = [chr(0x61 + c) for c in range(C - 1)]
        dev = float(np.max(np.abs(np.exp(lp.astype(np.float64)).sum(axis=1) - 1)))
        if case['how'] == 'call_tolerance':
            tol = case['tol']
            for dec, kw in ((D.CTCPrefixLogRawNumpyDecoder(letters + [D.BLANK_SYMBOL], k=k), {}), (D.GreedyDecoder(letters + [D.BLANK_SYMBOL]), {})):
                mon.count('call_tolerance_checked')
                try:
                    dec(lp.copy(), max_unnormalization=tol)
                    if dev > 1.05 * tol:
                        mon.violation('unnormalised-rejected', {'decoder': type(dec).__name__, 'deviation': dev, 'tolerance_passed_by_the_caller': tol, 'how': case['how']})
                except ValueError as e:
                    if dev < 0.5 * tol and abs(np.log1p(case['factor'] * tol)) < 0.5 * tol:
                        mon.violation('decode-raises', {'decoder': type(dec).__name__, 'deviation': dev, 'tolerance_passed_by_the_caller': tol, 'exception': repr(e)[:200]})
            mon.mark_nontrivial()
            return
        if case['how'] == 'float32_large_alphabet':
            mon.count('float32_large_alphabet_guard_checked')
        if dev < 2e-5:
            mon.skip_ambiguous('guard-threshold')
            return
        mon.count('guard_checked')
        for dec in (D.CTCPrefixLogRawNumpyDecoder(letters + [D.BLANK_SYMBOL], k=k), D.GreedyDecoder(letters + [D.BLANK_SYMBOL])):
            try:
                dec(lp.copy())
                mon.violation('unnormalised-rejected', {'decoder': type(dec).__name__, 'deviation': dev, 'how': case['how']})
            except ValueError:
                pass
        mon.mark_nontrivial()
        return
    if case['cls'] == 'threshold':
        mon.count('threshold_symbols', int((lp[:, :-1] == -10.0).sum()))
    r = decode_and_check(lp, k, dsel, mon, ctx, info)
    if r is None:
        return
    got, pruned_any, nh = r
    if nh >= 2 or pruned_any:
        mon.mark_nontrivial()
    if case['cls'] == 'unpruned_small':
        allp = ctc.all_transcripts(lp)
        mon.count('unpruned_compared')
        if set(allp) != set(got):
            mon.violation('unpruned-exact', {'missing': sorted(set(allp) - set(got))[:6], 'spurious': sorted(set(got) - set(allp))[:6]})
        else:
            for p in allp:
                if abs(allp[p] - got[p]) > 1e-9:
                    mon.violation('unpruned-exact', {'prefix': p, 'got': got[p], 'expected': float(allp[p])})
                    break


def extra(mon, ctx):
    if ctx.shard != 0:
        return
    Tmax = 2 if ctx.tier == 'quick' else 3
    rows = []
    for w in itertools.product([1.0, 2.0], repeat=3):
        r = np.log(np.array(w) / sum(w))
        if not any(np.allclose(r, q) for q in rows):
            rows.append(r)
    for T in range(1, Tmax + 1):
        for combo in itertools.product(range(len(rows)), repeat=T):
            lp = np.array([rows[c] for c in combo])
            allp = ctc.all_transcripts(lp)
            for k in (1, 2, 3, 50):
                for dsel in (True, False):
                    mon.cur_desc = {'exhaustive_twolevel': combo, 'k': k, 'default_selector': dsel}
                    r = decode_and_check(lp, k, dsel, mon, ctx, {'rows': combo, 'k': k, 'default_selector': dsel})
                    mon.count('extra_evaluations')
                    if r and k == 50:
                        got = r[0]
                        if set(got) != set(allp) or any(abs(got[p] - allp[p]) > 1e-9 for p in allp):
                            mon.violation('unpruned-exact', {'rows': combo, 'got': sorted(got), 'expected': sorted(allp)})
            mon.count('exhaustive_matrices')
