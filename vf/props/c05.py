"""C05 Forced alignment is a valid, minimum-cost CTC alignment."""
import json
import math
import os
import subprocess
import sys

import numpy as np

from vf.oracles.ctc_align import collapse, min_cost_dp, min_cost_brute

ID = 'C05'
LEVEL = 'exploration'
TECHNIQUE = ('runtime monitoring: brute-force / independent-DP oracle on every execution of force_align, recorder on the alignment used by '
             'align_text, numba bounds-checking sanitizer (NUMBA_BOUNDSCHECK=1) and JIT-vs-interpreter differential')
RULE = ('cost matrices T(1-40, float32 up to 400) x C(2-8), float64 and float32 (as the networks deliver them, with and without a large common offset), any blank index, labels of length 1..T+1 incl. immediate repeats; classes: continuous, small-integer '
        '(ties), with +inf entries, at the feasibility boundary T = L + repeats (+-1), small (brute force over all C^T labellings), blank among '
        'labels. non-trivial = a finite-cost alignment exists and T > L (some freedom); distinct = hash of (matrix, labels, blank) Negative blank index; alphabets of 130-300 classes with narrow integer label arrays; other memory layouts / label containers of the same numbers. Labels addressed from the end; lines of 33000-68000 frames; costs of 1e39-1e300.')
RULE += ' Round 6: Read-only matrices; costs below zero.'
RULE += ' Round 7: Trellises of 18-270 million cells: text packed into one end of the line, double-precision cost ranges, more than 2^27 cells.'
ASSUMPTIONS = ['"no alignment exists" is read as "no alignment of finite total cost" (subsumes too few frames and blank among labels)',
               'failure must be reported as ValueError (the documented exception)',
               'ties: any optimal alignment is accepted (costs are compared, not paths)']
N = {'quick': 4000, 'thorough': 150000}
CLASSES = ['continuous', 'integer_ties', 'with_inf', 'boundary', 'small_brute', 'small_brute_inf', 'blank_in_labels', 'long', 'float32', 'float32_long', 'large_alphabet', 'very_long', 'huge_costs', 'negative_costs']
REQUIRED = ['big_trellises', 'trellises_over_2^27_cells', 'presentation:7', 'presentation:6', 'frames_over_32767', 'huge_cost_matrices', 'negative_blank_index', 'narrow_label_arrays', 'presentation:0', 'presentation:1', 'presentation:2', 'presentation:5', 'float32_matrices', 'feasible_checked', 'infeasible_checked', 'brute_checked', 'align_text_checked', 'nojit_compared']
TIMEOUT = {'quick': 900, 'thorough': 7200}


def setup(ctx):
    from pero_ocr.core import force_alignment as fa
    from vf import hooks
    ctx.fa = fa
    ctx.log = []
    hooks.wrap(fa, 'force_align', hooks.recorder(ctx.log, 'force_align'))


def gen(rng, i, ctx=None):
    cls = CLASSES[i % len(CLASSES)]
    small = cls.startswith('small')
    C = int(rng.integers(2, 5 if small else 9))
    T = int(rng.integers(1, 7 if small else (41 if cls in ('long', 'float32') else (401 if cls == 'float32_long' else 16))))
    if small:
        while C ** T > 5000:
            T -= 1
    if cls == 'large_alphabet':
        C = int(rng.choice([130, 257, 300]))
        T = int(rng.integers(1, 25))
    if cls == 'very_long':
        # a line of more frames than a 16-bit index can address (rare; the oracle needs about a second for it), otherwise an ordinary long line
        T = int(rng.choice([rng.integers(33000, 36000), rng.integers(66000, 68000)])) if (i // len(CLASSES)) % 30 == 0 else int(rng.integers(100, 400))
        C = int(rng.integers(2, 5))
    blank = int(rng.integers(0, C)) if cls != 'large_alphabet' or rng.random() < 0.3 else C - 1
    nonblank = [c for c in range(C) if c != blank]
    if cls == 'large_alphabet':
        nonblank = [c for c in nonblank if c < 120]           # labels fit the narrowest integer types, the blank index need not
    L = int(rng.integers(1, T + 2))
    if cls in ('long', 'float32', 'float32_long'):
        L = int(rng.integers(1, max(2, T // 2)))
    if cls == 'very_long':
        L = int(rng.integers(1, 6))
    labels = [int(rng.choice(nonblank)) for _ in range(L)]
    if rng.random() < 0.4:
        for k in range(1, L):
            if rng.random() < 0.5:
                labels[k] = labels[k - 1]
    if cls == 'boundary':
        reps = sum(1 for k in range(1, L) if labels[k] == labels[k - 1])
        T = max(1, L + reps + int(rng.integers(-1, 2)))
    if cls == 'blank_in_labels':
        labels[int(rng.integers(0, L))] = blank
    if cls in ('integer_ties', 'small_brute') and rng.random() < 0.7:
        cost = rng.integers(0, 3, size=(T, C)).astype(np.float64)
    else:
        cost = -np.log(rng.dirichlet(np.ones(C) * float(rng.choice([0.1, 1.0, 10.0])), size=T) + 1e-300)
    if cls in ('with_inf', 'small_brute_inf'):
        cost[rng.random((T, C)) < float(rng.choice([0.1, 0.3, 0.6]))] = np.inf
    if cls.startswith('float32'):
        # what the networks deliver: float32 negative log-probabilities, possibly with a large common offset
        cost = (cost + float(rng.choice([0.0, 0.0, 50.0, 500.0]))).astype(np.float32)
    if cls == 'very_long' and T > 32767:
        cost[T - 3, labels[-1]] = -50.0          # the last character is clearly written near the end of the line
    if cls == 'negative_costs':
        cost = cost - float(rng.uniform(1, 20))           # raw / unnormalised scores: costs below zero
    if cls == 'huge_costs':
        cost = cost * float(rng.choice([1e39, 1e120, 1e300 / max(T, 1) / 50]))        # finite double-precision costs beyond the single-precision range
    case = {'cost': cost, 'labels': labels, 'blank': blank, 'cls': cls}
    # drawn last: the blank given numpy-style as a negative index (same column), and for large alphabets the labels as a narrow integer array
    if cls != 'blank_in_labels' and rng.random() < 0.15:
        case['blank'] = blank - C
    if cls == 'large_alphabet':
        case['labels_dtype'] = str(rng.choice(['uint8', 'int8', 'uint16', 'int16', 'list']))
    return case


def describe(case):
    return {'cost': case['cost'], 'labels': case['labels'], 'blank': case['blank']}


def run_force_align(fa, cost, labels, blank, labels_dtype=None, **kw):
    try:
        lab = list(labels) if labels_dtype in (None, 'list') else np.array(labels, dtype=labels_dtype)
        return 'ok', fa.force_align(cost.copy(), lab, blank, **kw)
    except ValueError as e:
        return 'ValueError', str(e)[:100]
    except Exception as e:
        return type(e).__name__, str(e)[:200]


def check(case, mon, ctx):
    fa = ctx.fa
    cost, labels, blank = case['cost'], case['labels'], case['blank']
    T = cost.shape[0]
    rows = cost.astype(np.float64).tolist()
    if cost.dtype == np.float32:
        mon.count('float32_matrices')
    bpos = blank % cost.shape[1]          # the column a negative (numpy-style) blank index addresses
    opt = min_cost_dp(rows, labels, bpos)
    brute = min_cost_brute(rows, labels, bpos, limit=5000)
    if brute is not None:
        mon.count('brute_checked')
        if not (brute == opt or abs(brute - opt) < 1e-9 * max(1.0, abs(opt))):
            raise RuntimeError('oracle self-check failed: DP %r vs brute force %r' % (opt, brute))
    if T > 32767:
        mon.count('frames_over_32767')
    if case['cls'] == 'huge_costs' and np.isfinite(cost).any() and float(cost[np.isfinite(cost)].max(initial=0)) > 3.5e38:
        mon.count('huge_cost_matrices')
    if blank < 0:
        mon.count('negative_blank_index')
    if case.get('labels_dtype') not in (None, 'list'):
        mon.count('narrow_label_arrays')
    status, res = run_force_align(fa, cost, labels, blank, labels_dtype=case.get('labels_dtype'))
    mon.observe('alignment', [status, [int(x) for x in res] if status == 'ok' else None])
    if opt == math.inf:
        mon.count('infeasible_checked')
        if status == 'ok':
            mon.violation('failure-iff-infeasible', {'got': [int(x) for x in res], 'note': 'alignment returned although no finite-cost alignment exists'})
        elif status != 'ValueError':
            mon.violation('failure-type', {'exception': status, 'msg': res})
        return
    mon.count('feasible_checked')
    if T > len(labels):
        mon.mark_nontrivial()
    if status != 'ok':
        mon.violation('failure-iff-infeasible', {'exception': status, 'msg': res, 'optimal_cost': opt})
        return
    al = [int(x) % cost.shape[1] for x in res]
    if len(al) != T:
        mon.violation('one-symbol-per-frame', {'len': len(al), 'T': T})
        return
    if collapse(al, bpos) != [int(x) for x in labels]:
        mon.violation('collapses-to-labels', {'alignment': al})
        return
    c = float(sum(float(cost[t, a]) for t, a in enumerate(al)))
    if not (c <= opt + 1e-9 * max(1.0, abs(opt))):
        mon.violation('minimal-cost', {'alignment': al, 'cost': c, 'optimal': opt})
    # the same numbers presented differently (memory layout of the matrix, container of the labels): a minimal-cost alignment again, and the caller's
    # matrix is left unchanged
    variant = (T + len(labels) + blank) % 8
    mon.count('presentation:%d' % variant)
    big = np.full((T + 3, 2 * cost.shape[1] + 1), 7.0, dtype=cost.dtype)
    if variant == 0:
        cv, lv = np.asfortranarray(cost), list(labels)
    elif variant == 1:
        big[:, ::2][1:T + 1, :cost.shape[1]] = cost
        cv, lv = big[:, ::2][1:T + 1, :cost.shape[1]], list(labels)             # a strided view into a larger matrix
    elif variant == 2:
        cv, lv = cost.copy(), np.array(labels, dtype=np.int32)
    elif variant == 3:
        cv, lv = cost.copy(), tuple(int(x) for x in labels)
    elif variant == 4:
        cv, lv = cost.copy(), np.array(labels, dtype=np.int64)
    elif variant == 5:
        cv, lv = cost[::-1][::-1], [np.int64(x) for x in labels]                # negative-stride round trip, numpy integer scalars
    elif variant == 6:
        cv, lv = cost.copy(), [int(x) - cost.shape[1] for x in labels]          # the labels addressed numpy-style from the end (-1 = last class), like the blank may be
    else:
        cv, lv = cost.copy(), list(labels)                                       # a read-only matrix (a memory-mapped file, a broadcast view, a cached array)
        cv.setflags(write=False)
    keep = np.array(cv, copy=True)
    try:
        r3 = fa.force_align(cv, lv, blank)
        al3 = [int(x) % cost.shape[1] for x in r3]
        c3 = float(sum(float(cost[t, a]) for t, a in enumerate(al3))) if len(al3) == T else math.inf
        if len(al3) != T or collapse(al3, bpos) != [int(x) for x in labels] or not (c3 <= opt + 1e-9 * max(1.0, abs(opt))):
            mon.violation('minimal-cost', {'presentation': variant, 'alignment': al3, 'cost': c3, 'optimal': opt, 'note': 'same numbers, other memory layout / label container'})
    except Exception as e:
        mon.violation('failure-iff-infeasible', {'presentation': variant, 'exception': repr(e)[:200], 'optimal_cost': opt})
    if not np.array_equal(np.asarray(cv), keep):
        mon.violation('input-left-unchanged', {'presentation': variant})
    # positions variant must describe the same path
    status2, pos = run_force_align(fa, cost, labels, blank, return_seq_positions=True)
    if status2 != 'ok' or len(pos) != T or any((p == -1) != (a == bpos) or (p != -1 and labels[int(p)] != a) for p, a in zip(pos, al)):
        mon.violation('positions-consistent', {'alignment': al, 'positions': [int(p) for p in pos] if status2 == 'ok' else status2})
    # align_text: positions derived from the alignment it used (captured by the recorder)
    del ctx.log[:]
    try:
        cp = ctx.fa.align_text(cost.copy(), np.array(labels), blank)
    except Exception as e:
        mon.violation('align_text-raises', {'exception': repr(e)[:200]})
        return
    used = [e for e in ctx.log if 'result' in e]
    if len(used) != 1:
        mon.inconclusive_because('align_text did not call force_align exactly once through the monitored name')
        return
    mon.count('align_text_checked')
    seq = np.asarray(used[0]['result'])
    cp = [int(x) for x in cp]
    maxp = (-cost).max(axis=-1)
    ok_inc = all(cp[k] < cp[k + 1] for k in range(len(cp) - 1))
    if len(cp) != len(labels) or not ok_inc:
        mon.violation('positions-strictly-increasing', {'positions': cp})
        return
    for k, p in enumerate(cp):
        frames = np.nonzero(seq == k)[0]
        if p not in frames:
            mon.violation('position-in-own-frames', {'char': k, 'position': p, 'frames': frames})
            break
        if not maxp[p] >= maxp[frames].max() - 1e-12:
            mon.violation('position-most-confident', {'char': k, 'position': p, 'frames': frames, 'max_probs': maxp[frames]})
            break


def _nojit_main(seed, n):
    os.environ['NUMBA_DISABLE_JIT'] = '1'
    from vf import core
    from pero_ocr.core import force_alignment as fa
    out = []
    for i in range(n):
        case = gen(core.case_rng(seed, ID, i), i)
        st, r = run_force_align(fa, case['cost'], case['labels'], case['blank'])
        out.append([st, [int(x) for x in r] if st == 'ok' else None])
    json.dump(out, sys.stdout)


def min_cost_np(cost, labels, bpos):
    """the same recursion as min_cost_dp, vectorised over the states (double precision): for trellises of millions of cells"""
    L = len(labels)
    states = np.full(2 * L + 1, bpos, dtype=np.int64)
    states[1::2] = labels
    can_skip = np.zeros(2 * L + 1, dtype=bool)
    can_skip[3::2] = np.asarray(labels[1:]) != np.asarray(labels[:-1])
    m = np.asarray(cost, dtype=np.float64)
    c = np.full(2 * L + 1, np.inf)
    c[:2] = m[0, states[:2]]
    for t in range(1, m.shape[0]):
        step = np.concatenate(([np.inf], c[:-1]))
        skip = np.where(can_skip, np.concatenate(([np.inf, np.inf], c[:-2])), np.inf)
        c = np.minimum(np.minimum(c, step), skip) + m[t, states]
    return float(min(c[-1], c[-2]))


def big_trellises(mon, ctx):
    """lines whose trellis has tens to hundreds of millions of cells (a long line with a long transcription): the text packed into one end of the line,
    double-precision costs that single precision cannot hold, more than 2^27 cells"""
    fa = ctx.fa
    rng = np.random.default_rng([ctx.seed, 5, 4242])
    todo = [('packed', 6000, 1500), ('double_range', 6000, 1500), ('beyond_float32', 5700, 1500), ('cells_over_2^27', 34000, 2000)]
    if ctx.tier == 'thorough':
        todo += [('packed', 9000, 1100), ('double_range', 4500, 2000), ('cells_over_2^27', 68000, 1000)]
    for name, T, L in todo:
        C = int(rng.integers(3, 6))
        blank = int(rng.integers(0, C))
        nonblank = [c for c in range(C) if c != blank]
        labels = [int(nonblank[k % len(nonblank)]) for k in range(L)]
        labels[L // 2] = labels[L // 2 - 1]
        if name == 'packed':
            cost = rng.uniform(0.5, 1.5, size=(T, C))
            start = 0 if rng.random() < 0.5 else T - (L + 12)
            t = start + int(rng.integers(0, 5))
            prev = None
            for lab in labels:                      # a zero-cost path with the whole text inside one quarter of the line
                if lab == prev:
                    cost[t, blank] = 0.0
                    t += 1
                cost[t, lab] = 0.0
                t += 1
                prev = lab
            on_path = np.zeros(T, bool)
            on_path[start:t] = True
            cost[~on_path, blank] = 0.0
            cost[start:start + 5, blank] = 0.0
        elif name == 'double_range':
            cost = 1e8 + rng.uniform(10, 20, size=(T, C))
        elif name == 'beyond_float32':
            cost = rng.uniform(1, 2, size=(T, C)) * 1e39
        else:
            cost = rng.random((T, C)).astype(np.float32)
        mon.cur_desc = {'leg': 'big_trellis', 'kind': name, 'frames': T, 'characters': L, 'classes': C, 'blank': blank}
        opt = min_cost_np(cost, labels, blank)
        mon.count('big_trellises')
        mon.count('extra_evaluations')
        if T * (2 * L + 1) > 2 ** 27:
            mon.count('trellises_over_2^27_cells')
        status, res = run_force_align(fa, cost, labels, blank)
        if status != 'ok':
            mon.violation('failure-iff-infeasible', {'kind': name, 'frames': T, 'characters': L, 'exception': status, 'msg': res, 'optimal_cost': opt})
            continue
        al = np.asarray(res).astype(np.int64) % C
        if len(al) != T or collapse(al.tolist(), blank) != labels:
            mon.violation('collapses-to-labels', {'kind': name, 'frames': T, 'characters': L})
            continue
        c = float(np.asarray(cost, dtype=np.float64)[np.arange(T), al].sum())
        if not (c <= opt + max(1e-9, 1e-11 * abs(opt))):
            mon.violation('minimal-cost', {'kind': name, 'frames': T, 'characters': L, 'cost': c, 'optimal': opt})
        del cost, res, al


def extra(mon, ctx):
    if ctx.shard == (1 if ctx.nshards > 1 else 0):
        big_trellises(mon, ctx)
    if ctx.shard != 0:
        return
    from vf import core
    n = 300 if ctx.tier == 'quick' else 3000
    env = dict(os.environ, NUMBA_DISABLE_JIT='1')
    p = subprocess.run([sys.executable, '-m', 'vf.props.c05', '--nojit', str(ctx.seed), str(n)], capture_output=True, text=True, env=env, timeout=3000)
    if p.returncode != 0:
        mon.inconclusive_because('interpreter (NUMBA_DISABLE_JIT=1) run failed: ' + p.stderr[-300:])
        return
    ref = json.loads(p.stdout)
    for i in range(n):
        case = gen(core.case_rng(ctx.seed, ID, i), i)
        st, r = run_force_align(ctx.fa, case['cost'], case['labels'], case['blank'])
        got = [st, [int(x) for x in r] if st == 'ok' else None]
        mon.count('nojit_compared')
        if got != ref[i]:
            mon.cur_case = i
            mon.violation('jit-vs-interpreter', {'jit': got, 'interpreter': ref[i]}, witness=describe(case))


if __name__ == '__main__':
    if sys.argv[1] == '--nojit':
        _nojit_main(int(sys.argv[2]), int(sys.argv[3]))
