"""C07 Batched line recognition returns each line's own result in input order."""
import configparser
import contextlib
import io

import numpy as np

ID = 'C07'
LEVEL = 'exploration'
TECHNIQUE = ('runtime monitoring: per-line reference oracle (the stub network applied by the harness to each image alone, padded as the engine pads a single line) compared with '
             'what the real PytorchEngineLineOCR.process_lines / PageOCR.process_page return at each input position, under list permutations and batch sizes 1-16; independent softmax oracle for the sparse rule')
RULE = ('lists of 0-24 line crops, widths 1..2500 px (beyond 480*batch -> truncated), many equal widths, random pixels; batch sizes 1-16; sparse / dense / tight-crop / no-logits modes; '
        'each list also processed reversed and shuffled; PageOCR.process_page through its real constructor. non-trivial = list with >= 2 lines of different widths; '
        'distinct = hash of (widths, batch size, mode, pixel seed) Restricted-alphabet stub (-inf logits); two-input embedding engine living for the whole run with embed_id re-assigned per case; PageOCR pages of 513-1300 lines. One injected network fault on the long-lived engine; a page recognised again after re-cropping.')
RULE += ' Round 6: Networks with all scores far below zero; the pixel budget re-assigned after construction.'
RULE += ' Round 7: Re-assigned padding (also not a multiple of the frame width); a sequence-to-sequence engine through process_lines; blank crops of equal byte size on PageOCR pages.'
ASSUMPTIONS = ['stub network = Conv2d(kernel (H,4), stride 4) with a blank bias: frame t depends on columns [4t,4t+4) only and all-zero padding decodes to blank (the premise of the property)',
               'float32 logits compared within 1e-4; sparse entries with posterior within +-20 % of 1e-4 are not judged',
               'for truncated lines (padded batch wider than 480*batch) only order-independence and the window start are required']
N = {'quick': 160, 'thorough': 8000}
CLASSES = ['mixed', 'mixed', 'equal_widths', 'tiny', 'long', 'page_ocr', 'empty_or_single', 'mixed', 'extreme_logits', 'masked_alphabet', 'embedding', 'page_ocr_many', 'after_fault', 'cold_logits', 'changed_limit', 'changed_padding', 'transformer_mode']
REQUIRED = ['page_ocr_pages_with_blank_crops_of_equal_byte_size', 'transformer_lists_with_transcriptions_of_different_lengths', 'lists_with_another_padding', 'cold_logit_lists', 'lists_after_the_pixel_budget_was_changed', 'calls_after_an_injected_network_fault', 'page_ocr_lines_recognised_again_after_recropping', 'masked_alphabet_lists', 'embedding_lists', 'page_ocr_pages_over_512_lines', 'lists', 'lines_checked', 'window_checked', 'dense_compared', 'sparse_compared', 'tight_compared', 'nologits_checked', 'permutations_checked', 'truncated_lines', 'page_ocr_lines', 'multi_batch_lists', 'extreme_logit_lists']
H = 16
CHARS = list('abcdefgh ')


def setup(ctx):
    import torch
    from vf import stubs
    from pero_ocr.ocr_engine.pytorch_ocr_engine import PytorchEngineLineOCR
    from pero_ocr.document_ocr import page_parser as pp
    from pero_ocr.core import layout
    ctx.torch, ctx.pp, ctx.L = torch, pp, layout
    ctx.json, ctx.net = stubs.make_ocr_engine_dir(ctx.tmpdir + '/eng', CHARS, H=H, seed=3, blank_bias=2.0, wscale=1.0)
    ctx.engines = {bs: PytorchEngineLineOCR(ctx.json, torch.device('cpu'), batch_size=bs) for bs in range(1, 17)}
    # a second stub whose logits span hundreds of units between frames (saturated white vs dark stretches): the sparse rule must still hold
    ctx.json_hot, ctx.net_hot = stubs.make_ocr_engine_dir(ctx.tmpdir + '/eng_hot', CHARS, H=H, seed=5, blank_bias=2.0, wscale=25.0)
    ctx.engines_hot = {bs: PytorchEngineLineOCR(ctx.json_hot, torch.device('cpu'), batch_size=bs) for bs in (1, 3, 8)}
    # a model with a restricted alphabet: two symbols always get a logit of -inf (posterior 0: sparse storage must not keep anything for them)
    ctx.json_masked, ctx.net_masked = stubs.make_ocr_engine_dir(ctx.tmpdir + '/eng_masked', CHARS, H=H, seed=7, blank_bias=2.0, wscale=1.0, masked=(1, 4))
    ctx.engines_masked = {bs: PytorchEngineLineOCR(ctx.json_masked, torch.device('cpu'), batch_size=bs) for bs in (1, 3, 8)}
    # a network whose scores are all far below zero (frames with every class below -87, nothing above 80): the posteriors are still well defined
    ctx.json_cold, ctx.net_cold = stubs.make_ocr_engine_dir(ctx.tmpdir + '/eng_cold', CHARS, H=H, seed=13, blank_bias=2.0, wscale=6.0, base_bias=-230.0)
    ctx.engines_cold = {bs: PytorchEngineLineOCR(ctx.json_cold, torch.device('cpu'), batch_size=bs) for bs in (1, 3, 8)}
    # engines whose pixel budget is re-assigned after construction (user_scripts/select_embed_id.py does that)
    ctx.engines_lim = {bs: PytorchEngineLineOCR(ctx.json, torch.device('cpu'), batch_size=bs) for bs in (1, 2, 4)}
    # a two-input model (image, embedding id); the engines live for the whole run and their embed_id is re-assigned from case to case (user_scripts/select_embed_id.py does that)
    ctx.json_emb, ctx.net_emb = stubs.make_ocr_engine_dir(ctx.tmpdir + '/eng_emb', CHARS, H=H, seed=9, blank_bias=2.0, wscale=1.0, embed_num=4, embed_id='mean')
    ctx.engines_emb = {bs: PytorchEngineLineOCR(ctx.json_emb, torch.device('cpu'), batch_size=bs) for bs in (1, 2, 5)}
    # engines whose horizontal padding is re-assigned after construction (also to values that are not a multiple of the frame width)
    ctx.engines_pad = {bs: PytorchEngineLineOCR(ctx.json, torch.device('cpu'), batch_size=bs) for bs in (1, 3, 8)}
    # a sequence-to-sequence engine (one logit row per output character): a tiny transformer whose transcriptions differ in length from line to line
    ctx.teng = stubs.make_transformer_engine(ctx.tmpdir + '/teng', 12, H=32, dim=16, heads=2, dff=32, enc=1, dec=2, eos_bias=2.0)
    cfg = configparser.ConfigParser()
    cfg.read_dict({'OCR': {'OCR_JSON': ctx.json, 'USE_CPU': 'yes'}})
    ctx.page_ocr = pp.PageOCR(cfg['OCR'], torch.device('cpu'))


def gen(rng, i, ctx):
    cls = CLASSES[i % len(CLASSES)]
    k = int(rng.integers(0, 25))
    bs = int(rng.integers(1, 17))
    if cls == 'empty_or_single':
        k = int(rng.integers(0, 2))
    pool = [1, 2, 3, 4, 5, 7, 8, 31, 32, 33, 63, 64, 65, 100, 128, 479, 480, 481]
    if cls == 'equal_widths':
        w0 = int(rng.choice(pool + [int(rng.integers(1, 400))]))
        ws = [w0 if rng.random() < 0.8 else int(rng.integers(1, 400)) for _ in range(k)]
    elif cls == 'tiny':
        ws = [int(rng.integers(1, 9)) for _ in range(k)]
    elif cls == 'long':
        ws = [int(rng.choice([int(rng.integers(400, 2500)), int(rng.integers(1, 200))])) for _ in range(k)]
        bs = int(rng.integers(1, 5))
    else:
        ws = [int(rng.choice(pool + [int(rng.integers(1, 700))] * 6)) for _ in range(k)]
    mode = str(rng.choice(['sparse', 'sparse', 'dense', 'tight', 'tight_sparse', 'nologits']))
    if cls == 'extreme_logits':
        mode, bs = 'sparse', int(rng.choice([1, 3, 8]))
    case = {'cls': cls, 'widths': ws, 'batch_size': bs, 'mode': mode, 'pix_seed': int(rng.integers(0, 1 << 30)), 'perm_seed': int(rng.integers(0, 1 << 30))}
    if cls == 'masked_alphabet':
        case['mode'], case['batch_size'] = str(rng.choice(['sparse', 'tight_sparse', 'dense'])), int(rng.choice([1, 3, 8]))
    if cls == 'embedding':
        case['batch_size'] = int(rng.choice([1, 2, 5]))
        case['embed_id'] = int(rng.integers(0, 5))
        case['widths'] = [int(x) for x in rng.choice([8, 40, 100, 300, 470, 900, 2000], size=int(rng.integers(1, 9)))]
    if cls == 'cold_logits':
        case['mode'], case['batch_size'] = str(rng.choice(['sparse', 'tight_sparse'])), int(rng.choice([1, 3, 8]))
    if cls == 'changed_limit':
        case['batch_size'] = int(rng.choice([1, 2, 4]))
        case['limit'] = int(480 * case['batch_size'] * float(rng.choice([0.5, 2.0, 1.5])))
        case['widths'] = [int(x) for x in rng.integers(100, 2 * case['limit'], size=int(rng.integers(1, 6)))]
    if cls == 'changed_padding':
        case['batch_size'] = int(rng.choice([1, 3, 8]))
        case['padding'] = int(rng.choice([30, 34, 18, 33, 31, 64, 8]))
    if cls == 'page_ocr_many':
        n = int(rng.choice([513, 600, 777, 1025, 1300]))
        case['widths'] = [int(x) for x in rng.integers(4, 40, size=n)]
    return case


def describe(case):
    return case


def make_lines(case):
    rng = np.random.default_rng(case['pix_seed'])
    out = []
    for w in case['widths']:
        img = rng.integers(1, 256, size=(H, w, 3)).astype(np.uint8)
        if case['cls'] == 'extreme_logits':
            img[:, rng.random(w) < 0.3] = 255       # saturated stretches
            img[:, rng.random(w) < 0.3] = 3         # nearly black stretches
        if rng.random() < 0.3:
            img[:, rng.random(w) < 0.5] = 0          # blank stretches inside the line
        out.append(img)
    return out


def alone(ctx, img, net=None, pad=32):
    """the network's output for this image alone, padded exactly as the engine pads a single line"""
    torch = ctx.torch
    w = img.shape[1]
    W = int(np.ceil(w / 32.0) * 32) + 2 * pad
    x = np.zeros((1, H, W, 3), np.uint8)
    x[0, :, pad:pad + w] = img
    with torch.no_grad():
        y = (net or ctx.net)(torch.from_numpy(x).float().permute(0, 3, 1, 2) / 255.0)[0].T.numpy()
    return y


def maxdiff(a, b):
    """max |a - b| where equal infinities count as equal and a NaN or a one-sided infinity as an infinite difference"""
    a, b = np.asarray(a, dtype=np.float64), np.asarray(b, dtype=np.float64)
    if a.size == 0:
        return 0.0
    same = (a == b)
    with np.errstate(invalid='ignore'):
        d = np.where(same, 0.0, np.abs(a - b))
    d[np.isnan(d)] = np.inf
    return float(d.max())


def collapse_text(lg, chars):
    am = lg.argmax(axis=1)
    out, prev = [], None
    for a in am:
        if a != prev and a != lg.shape[1] - 1:
            out.append(chars[a])
        prev = a
    return ''.join(out)


def check(case, mon, ctx):
    bs, mode, ws = case['batch_size'], case['mode'], case['widths']
    hot = case['cls'] == 'extreme_logits'
    eng = ctx.engines_hot[bs] if hot else ctx.engines[bs]
    net = ctx.net_hot if hot else ctx.net
    if case['cls'] == 'masked_alphabet':
        eng, net = ctx.engines_masked[bs], ctx.net_masked
        mon.count('masked_alphabet_lists')
    if case['cls'] == 'cold_logits':
        eng, net = ctx.engines_cold[bs], ctx.net_cold
        mon.count('cold_logit_lists')
    if case['cls'] == 'changed_limit':
        eng = ctx.engines_lim[bs]
        eng.max_input_horizontal_pixels = case['limit']
        mon.count('lists_after_the_pixel_budget_was_changed')
    if case['cls'] == 'changed_padding':
        eng = ctx.engines_pad[bs]
        eng.line_padding_px = case['padding']
        mon.count('lists_with_another_padding')
    if case['cls'] == 'embedding':
        eng = ctx.engines_emb[bs]
        eng.embed_id = case['embed_id']                 # re-assigned on a long-lived engine that recognised other lists with other ids before
        ids = ctx.torch.LongTensor([case['embed_id']])
        net = lambda x: ctx.net_emb(x, ids)
        mon.count('embedding_lists')
    lines = make_lines(case)
    k = len(lines)
    kw = dict(sparse_logits=(mode in ('sparse', 'tight_sparse')), tight_crop_logits=(mode in ('tight', 'tight_sparse')), no_logits=(mode == 'nologits'))
    if len(set(ws)) >= 2:
        mon.mark_nontrivial()
    if case['cls'] in ('page_ocr', 'page_ocr_many'):
        return check_page_ocr(case, lines, mon, ctx)
    if case['cls'] == 'transformer_mode':
        return check_transformer(case, mon, ctx)
    if case['cls'] == 'after_fault' and k >= 2:
        # fault injection: the network fails once (an out-of-memory RuntimeError) during an earlier call on this long-lived engine;
        # whatever that call does, later calls must recognise every line as before
        state = {'armed': True}
        orig_run = eng.run_ocr

        def failing(batch):
            if state['armed'] and batch.shape[0] >= 2:
                state['armed'] = False
                raise RuntimeError('CUDA out of memory (injected)')
            return orig_run(batch)
        eng.run_ocr = failing
        try:
            with contextlib.redirect_stdout(io.StringIO()):
                eng.process_lines(list(lines), **kw)
        except RuntimeError:
            pass
        finally:
            del eng.run_ocr
        if not state['armed']:
            mon.count('calls_after_an_injected_network_fault')
    with contextlib.redirect_stdout(io.StringIO()):
        try:
            tr, lg, co = eng.process_lines(list(lines), **kw)
        except Exception as e:
            mon.violation('recognition-returns-a-result-for-every-line', {'exception': repr(e)[:300], 'widths': ws, 'batch_size': bs, 'mode': mode})
            return
    mon.count('lists')
    mon.observe('transcriptions and windows', [tr, co])
    if not (len(tr) == len(lg) == len(co) == k):
        mon.violation('one-result-per-input-position', {'n_lines': k, 'n_results': [len(tr), len(lg), len(co)]})
        return
    limit = int(eng.max_input_horizontal_pixels)       # (480 * batch size unless it was re-assigned)
    widest_padded = (int(np.ceil(max(ws) / 32.0) * 32) + 64) if ws else 0
    if ws and sum(int(np.ceil(w / 32.0) * 32) for w in ws) > limit:
        mon.count('multi_batch_lists')
    pad = int(eng.line_padding_px)
    refs = [alone(ctx, img, net, pad) for img in lines]
    if hot:
        mon.count('extreme_logit_lists')
        mon.observe_max('logit_range_between_frames', max([float(r.max(axis=1).max() - r.max(axis=1).min()) for r in refs] or [0.0]))
    for i, (img, w) in enumerate(zip(lines, ws)):
        mon.count('lines_checked')
        ref = refs[i]
        # frames lying wholly inside the un-padded extent of the line: [a, b); when the padding is not a multiple of the frame width the window may
        # also include the frame that straddles either edge (a - 1, b)
        a, b = -(-pad // 4), (pad + w) // 4
        starts, ends = {pad // 4, a}, {b, -(-(pad + w) // 4)}
        maybe_trunc = (pad + w) > limit      # the line's own right edge lies beyond what the engine feeds to the network
        wit = {'position': i, 'width': w, 'batch_size': bs, 'mode': mode}
        if maybe_trunc:
            mon.count('truncated_lines')
        exp_text = collapse_text(ref, eng.characters)
        if not maybe_trunc and tr[i] != exp_text:
            mon.violation('transcription-is-the-lines-own', dict(wit, got=tr[i], expected=exp_text))
        if mode == 'nologits':
            mon.count('nologits_checked')
            if lg[i] is not None or co[i] is not None:
                mon.violation('no-logits-mode', dict(wit, logits=type(lg[i]).__name__, coords=co[i]))
            continue
        Lg = lg[i].toarray() if mode in ('sparse', 'tight_sparse') else np.asarray(lg[i])
        if Lg.ndim != 2 or Lg.shape[1] != len(eng.characters):
            mon.violation('logits-are-the-lines-own', dict(wit, note='logit matrix does not have one column per symbol', shape=list(Lg.shape), symbols=len(eng.characters)))
            continue
        if mode in ('tight', 'tight_sparse'):
            mon.count('tight_compared')
            if co[i] != [None, None]:
                mon.violation('frame-window', dict(wit, coords=co[i], note='tight crop must report an unknown window'))
            ok_ = False
            for s0 in sorted(starts):
                for e0 in sorted(ends):
                    rr = ref[s0:max(s0, e0)]
                    if mode == 'tight_sparse' and Lg.shape == rr.shape:
                        pp_ = np.exp(rr.astype(np.float64) - np.logaddexp.reduce(rr.astype(np.float64), axis=1)[:, None]) if rr.size else rr
                        ok_ = ok_ or ((maxdiff(Lg[pp_ > 1.2e-4], rr[pp_ > 1.2e-4]) <= 1e-4 and not np.any(Lg[pp_ < 0.8e-4] != 0)) if rr.size else True)
                    else:
                        ok_ = ok_ or (Lg.shape == rr.shape and maxdiff(Lg, rr) <= 1e-4)
            rr = ref[a:b]
            if not maybe_trunc and not ok_:
                mon.violation('logits-are-the-lines-own', dict(wit, shape=Lg.shape, expected_shape=rr.shape))
            continue
        mon.count('window_checked')
        if not (co[i][0] in starts and co[i][1] in ends) and not (maybe_trunc and co[i][0] in starts):
            mon.violation('frame-window', dict(wit, coords=co[i], expected=[sorted(starts), sorted(ends)], padding=pad))
        if maybe_trunc or b <= a:
            continue
        if b > Lg.shape[0]:
            mon.violation('frame-window', dict(wit, coords=co[i], frames=Lg.shape[0], note='window exceeds the returned frames of an untruncated line'))
            continue
        win, r = Lg[a:b], ref[a:b]
        if mode == 'dense':
            mon.count('dense_compared')
            if maxdiff(win, r) > 1e-4:
                mon.violation('logits-are-the-lines-own', dict(wit, max_abs_diff=maxdiff(win, r)))
        else:
            mon.count('sparse_compared')
            p = np.exp(r.astype(np.float64) - np.logaddexp.reduce(r.astype(np.float64), axis=1)[:, None])
            keep, drop = p > 1.2e-4, p < 0.8e-4
            tol = 1e-4 * max(1.0, float(np.abs(r[np.isfinite(r)]).max(initial=0)))
            if win.size and (maxdiff(win[keep], r[keep]) > tol or np.any(win[drop] != 0)):
                mon.violation('sparse-keeps-posteriors-above-1e-4-unchanged-and-nothing-else', dict(wit, kept_changed=maxdiff(win[keep], r[keep]), dropped_nonzero=int((win[drop] != 0).sum())))
    # order independence: reversed and shuffled lists give the same result for the same image
    if k >= 2:
        rng = np.random.default_rng(case['perm_seed'])
        for perm in (list(reversed(range(k))), [int(x) for x in rng.permutation(k)]):
            with contextlib.redirect_stdout(io.StringIO()):
                tr2, lg2, co2 = eng.process_lines([lines[j] for j in perm], **kw)
            mon.count('permutations_checked')
            for pos, j in enumerate(perm):
                same = tr2[pos] == tr[j] and co2[pos] == co[j]
                if same and mode != 'nologits':
                    A = lg[j].toarray() if mode in ('sparse', 'tight_sparse') else np.asarray(lg[j])
                    B = lg2[pos].toarray() if mode in ('sparse', 'tight_sparse') else np.asarray(lg2[pos])
                    a, b = (0, min(A.shape[0], B.shape[0])) if mode in ('tight', 'tight_sparse') else (co[j][0], min(co[j][1], A.shape[0], B.shape[0]))
                    same = A.shape[1] == B.shape[1] and (maxdiff(A[a:b], B[a:b]) <= 1e-4)
                if not same:
                    mon.violation('independent-of-list-order', {'image': j, 'position_in_permuted_list': pos, 'width': ws[j], 'batch_size': bs, 'mode': mode,
                                  'text': [tr[j], tr2[pos]], 'coords': [co[j], co2[pos]]})
                    break


def check_page_ocr(case, lines, mon, ctx):
    L = ctx.L
    if case['cls'] == 'page_ocr' and case['perm_seed'] % 2 == 0:
        # the blank double-precision square that LineCropper stores when cropping a line fails, next to an all-black 8-bit crop that occupies as many bytes
        lines = list(lines) + [np.zeros((H, H, 3)), np.zeros((H, 8 * H, 3), np.uint8)]
        if case['perm_seed'] % 4 == 0:
            lines[-1], lines[-2] = lines[-2], lines[-1]
        case = dict(case, widths=list(case['widths']) + [int(lines[-2].shape[1]), int(lines[-1].shape[1])])
        mon.count('page_ocr_pages_with_blank_crops_of_equal_byte_size')
    pl = L.PageLayout(id='p', page_size=(100, 100))
    regs = [L.RegionLayout('r%d' % r, np.array([[0, 0], [10, 0], [10, 10]])) for r in range(3)]
    for i, img in enumerate(lines):
        regs[i % 3].lines.append(L.TextLine(id='l%d' % i, crop=img))
    pl.regions = regs
    with contextlib.redirect_stdout(io.StringIO()):
        ctx.page_ocr.process_page(None, pl)
    eng = ctx.page_ocr.ocr_engine
    if len(lines) > 512:
        mon.count('page_ocr_pages_over_512_lines')
    for line in pl.lines_iterator():
        mon.count('page_ocr_lines')
        i = int(line.id[1:])
        w = case['widths'][i]
        ref = alone(ctx, lines[i])
        exp_text = collapse_text(ref, eng.characters)
        if w + 64 + 32 <= 480 * 8:
            a, b = 8, (32 + w) // 4
            wit = {'line': line.id, 'width': w, 'lines_on_page': len(lines)}
            if line.logits is None or line.logit_coords is None or line.transcription is None:
                mon.violation('one-result-per-input-position', dict(wit, via='PageOCR', note='the line was left without a result', transcription=line.transcription))
                continue
            if line.transcription != exp_text:
                mon.violation('transcription-is-the-lines-own', dict(wit, via='PageOCR', got=line.transcription, expected=exp_text))
            if list(line.logit_coords) != [a, b]:
                mon.violation('frame-window', dict(wit, via='PageOCR', coords=line.logit_coords, expected=[a, b]))
            else:
                win = line.logits.toarray()[a:b]
                p = np.exp(ref[a:b].astype(np.float64) - np.logaddexp.reduce(ref[a:b].astype(np.float64), axis=1)[:, None])
                keep = p > 1.2e-4
                if win.shape != ref[a:b].shape or np.abs(win[keep] - ref[a:b][keep]).max(initial=0) > 1e-4:
                    mon.violation('logits-are-the-lines-own', dict(wit, via='PageOCR'))
        if list(line.characters) != list(eng.characters):
            mon.violation('character-table-attached', {'line': line.id})
    # history on the page object: some lines are cropped again (other pixels, other widths) and the page is recognised again by the same PageOCR
    if len(lines) > 64 or not lines:
        return
    rng = np.random.default_rng(case['perm_seed'])
    changed = {}
    for line in pl.lines_iterator():
        if rng.random() < 0.5:
            w2 = int(rng.integers(1, 400))
            line.crop = rng.integers(1, 256, size=(H, w2, 3)).astype(np.uint8)
            changed[line.id] = line.crop
    with contextlib.redirect_stdout(io.StringIO()):
        ctx.page_ocr.process_page(None, pl)
    for line in pl.lines_iterator():
        if line.id not in changed:
            continue
        mon.count('page_ocr_lines_recognised_again_after_recropping')
        img2 = changed[line.id]
        ref2 = alone(ctx, img2)
        a2, b2 = 8, (32 + img2.shape[1]) // 4
        if line.transcription != collapse_text(ref2, eng.characters) or list(line.logit_coords) != [a2, b2]:
            mon.violation('transcription-is-the-lines-own', {'via': 'PageOCR on a page that was recognised before and partly re-cropped', 'line': line.id, 'width_now': int(img2.shape[1]),
                          'got': line.transcription, 'expected': collapse_text(ref2, eng.characters), 'coords': line.logit_coords, 'expected_coords': [a2, b2]})


def check_transformer(case, mon, ctx):
    """sequence-to-sequence engine: one logit row per character of the line's own transcription, window = all of them, whatever else is in the batch"""
    rng = np.random.default_rng(case['pix_seed'])
    ws = [int(x) for x in rng.choice([16, 40, 64, 77, 90, 120, 200, 300], size=max(2, min(8, len(case['widths']) or 2)))]
    lines = [rng.integers(0, 256, size=(32, w, 3)).astype(np.uint8) for w in ws]
    eng = ctx.teng
    sparse = case['mode'] in ('sparse', 'tight_sparse')
    with contextlib.redirect_stdout(io.StringIO()):
        tr, lg, co = eng.process_lines(list(lines), sparse_logits=sparse)
    mon.count('lists')
    mon.observe('transformer transcriptions', tr)
    if len({len(t) for t in tr}) >= 2:
        mon.count('transformer_lists_with_transcriptions_of_different_lengths')
        mon.mark_nontrivial()
    for i, (t, l, c) in enumerate(zip(tr, lg, co)):
        mon.count('lines_checked')
        rows = l.shape[0]
        if list(c) != [0, len(t)] or rows != len(t) or l.shape[1] != len(eng.characters):
            mon.violation('frame-window', {'engine': 'transformer', 'position': i, 'width': ws[i], 'characters_in_transcription': len(t), 'logit_rows': rows, 'window': c,
                          'transcription_lengths_in_the_batch': [len(x) for x in tr], 'note': 'one logit row per character of the line, the window covers all of them'})
