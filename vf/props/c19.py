"""C19 Engine merging keeps, per line, the most confident engine's result."""
import copy
import importlib.util
import itertools
import os

import numpy as np
from scipy import sparse

from vf import genlib

ID = 'C19'
LEVEL = 'exploration'
TECHNIQUE = ('runtime monitoring: independent recomputation oracle (per-engine mean character confidence, strict arg-max, first on ties) compared with the fields '
             'of the merged layout by value and object identity, on generated engine tuples in every engine order')
RULE = ('tuples of 1-5 page layouts x 1-6 lines with identical ids, per-engine charsets (different orderings / subsets), logits peaky / noisy / diffuse / too short to '
        'align / transformer-shaped, transcriptions empty or None, exact ties (same engine twice), every engine order for <= 3 engines. '
        'non-trivial = at least two engines with different positive confidences on some line; distinct = hash of the tuple description Near ties below 1e-9 relative; raw scores of large magnitude; line ids repeated per region; engines agreeing on the text. Input lines with a stored confidence.')
RULE += ' Round 6: Engines that group the same lines into regions differently.'
RULE += ' Round 7: main() with a minimum confidence; character tables without a blank entry; harness-side confidences for one-row-per-character lines.'
RULE += ' Round 8: An all-but-certain engine before a certain one.'
ASSUMPTIONS = ['every transcription is over its own engine\'s charset', 'the mean character confidence is the repository\'s get_line_confidence (itself under the C16 contracts), 0.5 per character when alignment raises ValueError, -10 for empty/None',
               'confidence equality within 1e-12']
N = {'quick': 1500, 'thorough': 60000}
CLASSES = ['mixed', 'mixed', 'ties', 'self_merge', 'all_empty', 'different_charsets', 'single_engine', 'unalignable', 'per_line_charsets', 'merge_of_merges', 'near_ties', 'raw_scores', 'repeated_ids', 'same_text', 'regrouped']
REQUIRED = ['merges_with_an_almost_certain_first_engine', 'main_runs_with_a_minimum_confidence', 'lines_of_tables_without_a_blank_entry', 'merges_of_differently_grouped_layouts', 'winner_not_first_with_the_same_text', 'near_ties_checked', 'lines_with_ids_repeated_per_region', 'raw_score_lines', 'main_runs', 'main_tie_lines', 'per_line_charset_merges', 'merges', 'lines_checked', 'winner_not_first', 'ties_checked', 'self_merges', 'no_positive_confidence_lines']


def setup(ctx):
    from pero_ocr.core import layout, confidence_estimation as ce
    spec = importlib.util.spec_from_file_location('vf_merge_ocr_results', os.path.join(ctx.repo, 'user_scripts', 'merge_ocr_results.py'))
    M = importlib.util.module_from_spec(spec)
    M.__vf_under_test__ = True
    spec.loader.exec_module(M)
    ctx.M, ctx.layout, ctx.ce = M, layout, ce


BASE = list('abcdefgh ')


def gen(rng, i, ctx):
    cls = CLASSES[i % len(CLASSES)]
    ne = int(rng.integers(1, 6))
    if cls == 'single_engine':
        ne = 1
    nl = int(rng.integers(1, 7))
    engines = []
    for e in range(ne):
        cs = list(BASE)
        if cls == 'different_charsets' or rng.random() < 0.5:
            rng.shuffle(cs)
            if rng.random() < 0.5:
                cs = cs + list('xyz')[:int(rng.integers(0, 4))]
        lines = []
        for l in range(nl):
            kind = str(rng.choice(['text', 'text', 'text', 'empty', 'none']))
            if cls == 'all_empty':
                kind = str(rng.choice(['empty', 'none']))
            t = ''.join(cs[int(k)] for k in rng.integers(0, len(cs), size=int(rng.integers(1, 9)))) if kind == 'text' else ('' if kind == 'empty' else None)
            mode = str(rng.choice(['peaky', 'noisy', 'diffuse', 'short', 'transformer']))
            if cls == 'unalignable':
                mode = str(rng.choice(['short', 'diffuse']))
            ld = {'text': t, 'mode': mode, 'seed': int(rng.integers(0, 1 << 30))}
            if cls in ('per_line_charsets', 'merge_of_merges'):
                # the lines of one layout carry different character tables (same symbols, different order), as after an earlier merge
                pc = list(cs)
                rng.shuffle(pc)
                ld['chars'] = pc
            lines.append(ld)
        engines.append({'chars': cs, 'lines': lines})
    if cls == 'ties' and ne >= 2:
        engines[int(rng.integers(1, ne))] = copy.deepcopy(engines[0])
    if cls == 'same_text':
        # the engines agree on the text of most lines (the usual situation) but not on their posteriors or character tables
        for l in range(nl):
            t = ''.join(BASE[int(k)] for k in rng.integers(0, len(BASE), size=int(rng.integers(1, 9))))
            for e in range(ne):
                if e == 0 or rng.random() < 0.8:
                    engines[e]['lines'][l]['text'] = t
    if cls == 'near_ties':
        # a later engine whose posteriors are the first engine's raised by a hair: strictly more confident, by less than 1e-9 relative
        for ld in engines[0]['lines']:
            ld['mode'] = 'transformer'
        ne = max(ne, 2)
        engines = engines[:1] + [copy.deepcopy(engines[0]) for _ in range(ne - 1)]
        for e in range(1, ne):
            for ld in engines[e]['lines']:
                ld['nudge'] = float(rng.choice([1e-10, 3e-10, 1e-11])) * e
        # (round 8) or: the first engine is all but certain (mean posterior within 1e-7 of 1), a later one is certain (exactly 1.0 in double precision)
        if rng.random() < 0.4:
            for e in range(ne):
                for ld in engines[e]['lines']:
                    ld.pop('nudge', None)
                    ld['margin'] = [float(rng.uniform(18.5, 19.5)), 60.0, 17.0][min(e, 2)] if e < 2 or e == ne - 1 else float(rng.uniform(10, 16))
    if cls == 'raw_scores':
        # transformer-shaped matrices holding raw scores of large magnitude (no soft-max applied by the recogniser)
        for en in engines:
            for ld in en['lines']:
                ld['mode'] = 'transformer'
                ld['magnitude'] = float(rng.choice([30.0, 200.0, 1000.0]))
        # (round 7) half of these pages come from sequence-to-sequence recognisers whose character tables have no blank entry: the last class is a character too
        if rng.random() < 0.5:
            for en in engines:
                for ld in en['lines']:
                    ld['no_blank'] = True
                    if ld['text']:
                        ld['text'] = ld['text'] + en['chars'][-1]
    case = {'cls': cls, 'engines': engines, 'nl': nl}
    if cls == 'near_ties' and any('margin' in ld for en in engines for ld in en['lines']):
        case['almost_certain_first_engine'] = True
    if cls == 'repeated_ids':
        case['ids_per_region'] = True          # lines numbered per region: l0, l1 in r1 and again in r2
    return case


def describe(case):
    return case


def build_layout(L, eng, nl, ids_per_region=False, first_region_lines=None):
    pl = L.PageLayout(id='p', page_size=(400, 600))
    regs = [L.RegionLayout('r1', np.array([[0, 0], [600, 0], [600, 200], [0, 200]])), L.RegionLayout('r2', np.array([[0, 200], [600, 200], [600, 400], [0, 400]]))]
    for k, ld in enumerate(eng['lines']):
        cs = ld.get('chars', eng['chars'])
        no_blank = bool(ld.get('no_blank')) and ld['mode'] == 'transformer'       # a sequence-to-sequence model: every output class is a character, the table has no blank entry
        C = len(cs) + (0 if no_blank else 1)
        rng = np.random.default_rng(ld['seed'])
        t = ld['text']
        labels = [cs.index(ch) for ch in (t if t else 'a' if 'a' in cs else cs[0])]
        if ld['mode'] == 'transformer':
            lg = rng.normal(size=(len(labels), C)) * 3
            lg[np.arange(len(labels)), labels] += float(rng.uniform(0, 6))
            if 'margin' in ld:
                lg = np.full((len(labels), C), 0.01)
                lg[np.arange(len(labels)), labels] = ld['margin']
            lg = lg * ld.get('magnitude', 1.0)
            lg[np.arange(len(labels)), labels] += ld.get('nudge', 0.0)
        elif ld['mode'] == 'short':
            lg = rng.normal(size=(max(1, len(labels) - 1) if len(labels) > 1 else 1, C))
            if len(labels) == 1:
                lg = rng.normal(size=(1, C)); lg[0, labels[0]] = -50; lg[0, C - 1] = 10   # one frame, label impossible? still alignable -> fine
        else:
            path = genlib.path_for_labels(rng, labels, C - 1)
            lg = genlib.logits_for_path(rng, path, C, mode=ld['mode'])
        lg[lg == 0] = 0.01
        line = L.TextLine(id='l%d' % (k // 2 if ids_per_region else k), baseline=np.array([[10.0, 20.0 + 30 * k], [500.0, 22.0 + 30 * k]]),
                          polygon=np.array([[10, 5 + 30 * k], [500, 5 + 30 * k], [500, 28 + 30 * k], [10, 28 + 30 * k]], dtype=np.float64),
                          heights=[15.0, 6.0], transcription=t, logits=sparse.csc_matrix(lg), characters=list(cs) + ([] if no_blank else ['<b>']), logit_coords=[0, lg.shape[0]])
        # engine outputs read from PAGE XML already carry a (rounded) confidence of their own; merging compares what the posteriors say
        line.transcription_confidence = [None, 0.999, 0.0, 0.5, 0.812][(ld['seed'] + k) % 5]
        regs[k % 2 if first_region_lines is None else (0 if k < first_region_lines else 1)].lines.append(line)
    pl.regions = regs
    return pl


def expected_conf(ctx, line):
    if line.transcription is None or line.transcription == '':
        return -10.0
    cmap = {c: k for k, c in enumerate(line.characters)}
    idx = np.asarray([cmap[c] for c in line.transcription])
    # the oracle evaluates a FRESH line object carrying the same logits, so that nothing cached on the long-lived line can leak into it
    fresh = ctx.layout.TextLine(logits=line.logits, characters=line.characters)
    if line.logits.shape[0] == len(idx) and line.logits.nnz == line.logits.shape[0] * line.logits.shape[1]:
        # one row per character (a sequence-to-sequence recogniser) and every score stored: the posterior of each character in its own row, computed here
        d = np.asarray(line.logits.todense(), dtype=np.float64)
        lp = d - np.logaddexp.reduce(d, axis=1)[:, None]
        return float(np.mean(np.exp(lp[np.arange(len(idx)), idx])))
    try:
        return float(np.mean(ctx.ce.get_line_confidence(fresh, idx)))
    except ValueError:
        return 0.5


def run_merge(case, order, mon, ctx):
    L, M = ctx.layout, ctx.M
    engines = [case['engines'][k] for k in order]
    if case['cls'] == 'regrouped':
        # the engines list the same lines in the same order but group them into regions differently (one engine ran after a layout correction)
        layouts = [build_layout(L, e, case['nl'], first_region_lines=[(case['nl'] + 1) // 2, case['nl'], 1, 0][k % 4]) for k, e in enumerate(engines)]
        mon.count('merges_of_differently_grouped_layouts')
    else:
        layouts = [build_layout(L, e, case['nl'], ids_per_region=case.get('ids_per_region', False)) for e in engines]
    if case['cls'] == 'merge_of_merges' and len(layouts) >= 3:
        # multi-step history: merge(E1, E2) first, then merge the result with the remaining engines
        M.merge_layouts(layouts[:2])
        layouts = [layouts[0]] + layouts[2:]
    if case['cls'] == 'self_merge':
        layouts = [layouts[0], layouts[0]] if len(layouts) < 2 or order[0] % 2 == 0 else [layouts[0], copy.deepcopy(layouts[0])]
        mon.count('self_merges')
    lines = [list(pl.lines_iterator()) for pl in layouts]
    nl = len(lines[0])
    snap = [[{'t': l.transcription, 'logits': l.logits, 'chars': l.characters, 'conf': l.transcription_confidence, 'id': l.id,
              'baseline': l.baseline.copy(), 'polygon': l.polygon.copy(), 'heights': list(l.heights), 'coords': list(l.logit_coords)} for l in ls] for ls in lines]
    region_ids = [(r.id, [l.id for l in r.lines], r.polygon.copy()) for r in layouts[0].regions]
    exp = []
    for li in range(nl):
        best, bi, confs = 0, None, []
        for e in range(len(layouts)):
            c = expected_conf(ctx, lines[e][li])
            confs.append(c)
            if c > best:
                best, bi = c, e
        exp.append((bi, best, confs))
    try:
        M.merge_layouts(layouts)
    except BaseException as ex:
        mon.violation('merge-raises', {'order': order, 'exception': repr(ex)[:300]})
        return
    mon.count('merges')
    if case['cls'] == 'raw_scores':
        mon.count('raw_score_lines', nl)
        if any(ld.get('no_blank') for en in case['engines'] for ld in en['lines']):
            mon.count('lines_of_tables_without_a_blank_entry', nl)
    if case['cls'] in ('per_line_charsets', 'merge_of_merges'):
        mon.count('per_line_charset_merges')
    merged = layouts[0]
    mon.observe('merged transcriptions', [(l.id, l.transcription, None if l.transcription_confidence is None else round(float(l.transcription_confidence), 12)) for l in merged.lines_iterator()])
    if [(r.id, [l.id for l in r.lines]) for r in merged.regions] != [(a, b) for a, b, _ in region_ids] or any(not np.array_equal(r.polygon, p) for r, (_, _, p) in zip(merged.regions, region_ids)):
        mon.violation('ids-and-geometry-unaltered', {'order': order, 'what': 'regions'})
    out = list(merged.lines_iterator())
    for li, (bi, best, confs) in enumerate(exp):
        l = out[li]
        mon.count('lines_checked')
        src = snap[bi if bi is not None else 0][li]
        w = {'order': order, 'line': li, 'confidences': confs, 'expected_engine': bi}
        pos = sorted([c for c in confs if c > 0], reverse=True)
        if len(pos) >= 2 and pos[0] == pos[1]:
            mon.count('ties_checked')
        elif len(pos) >= 2 and pos[0] - pos[1] <= 1e-9 * pos[0]:
            mon.count('near_ties_checked')
        if case.get('ids_per_region'):
            mon.count('lines_with_ids_repeated_per_region')
        if case.get('almost_certain_first_engine') and li == 0:
            mon.count('merges_with_an_almost_certain_first_engine')
        if bi is not None and bi > 0:
            mon.count('winner_not_first')
            if snap[bi][li]['t'] == snap[0][li]['t']:
                mon.count('winner_not_first_with_the_same_text')
        if bi is None:
            mon.count('no_positive_confidence_lines')
        if l.transcription != src['t']:
            mon.violation('keeps-most-confident-transcription', dict(w, got=l.transcription, expected=src['t']))
        if l.logits is not src['logits'] or l.characters is not src['chars']:
            which = [e for e in range(len(snap)) if l.logits is snap[e][li]['logits']], [e for e in range(len(snap)) if l.characters is snap[e][li]['chars']]
            mon.violation('logits-and-characters-of-the-same-engine', dict(w, logits_from=which[0], characters_from=which[1]))
        if bi is not None:
            if l.transcription_confidence is None or abs(l.transcription_confidence - best) > 1e-12:
                mon.violation('records-maximum-confidence', dict(w, got=l.transcription_confidence, expected=best))
        elif l.transcription_confidence != snap[0][li]['conf']:
            mon.violation('records-maximum-confidence', dict(w, got=l.transcription_confidence, note='no positive confidence: must stay untouched'))
        s0 = snap[0][li]
        if l.id != s0['id'] or not np.array_equal(l.baseline, s0['baseline']) or not np.array_equal(l.polygon, s0['polygon']) or list(l.heights) != s0['heights']:
            mon.violation('ids-and-geometry-unaltered', dict(w, what='line'))
    if case['cls'] == 'self_merge':
        for li, l in enumerate(out):
            s0 = snap[0][li]
            if l.transcription != s0['t'] or l.logits is not s0['logits'] or l.characters is not s0['chars']:
                mon.violation('self-merge-changes-nothing', {'line': li})
    return exp


def check(case, mon, ctx):
    ne = len(case['engines'])
    orders = [list(range(ne))]
    if 2 <= ne <= 3:
        orders = [list(p) for p in itertools.permutations(range(ne))]
    elif ne > 3:
        orders.append(list(reversed(range(ne))))
    nontriv = False
    for order in orders:
        exp = run_merge(case, order, mon, ctx)
        if exp and any(len({round(c, 9) for c in confs if c > 0}) >= 2 for _, _, confs in exp):
            nontriv = True
    if nontriv:
        mon.mark_nontrivial()


def extra(mon, ctx):
    """the script's main(): engines are the directories in the order given on the command line (here NOT alphabetical); the merged files must
    carry, per line, what merge_layouts gives for the layouts in that order - in particular the first engine on ties"""
    if ctx.shard != 0:
        return
    import sys
    import contextlib
    import io
    L, M = ctx.layout, ctx.M
    rng = np.random.default_rng([ctx.seed, 19, 7])
    for rep in range(3 if ctx.tier == 'quick' else 40):
        root = os.path.join(ctx.tmpdir, 'main%d' % rep)
        names = ['zz_engine', 'mm_engine', 'aa_engine'][:int(rng.integers(2, 4))]
        nl = int(rng.integers(2, 6))
        engines = []
        for e, name in enumerate(names):
            lines = []
            for l in range(nl):
                kind = str(rng.choice(['tie_unalignable', 'tie_unalignable', 'text', 'empty']))
                if rep % 3 == 2 and l == 0:
                    kind = 'tie_unalignable'         # (a line that every engine reads with confidence 0.5: below the minimum confidence of this run)
                cs = list(BASE)
                t = ''.join(cs[int(k)] for k in rng.integers(0, len(cs) - 1, size=int(rng.integers(2, 7)))) if kind != 'empty' else ''
                lines.append({'text': t, 'mode': 'short' if kind == 'tie_unalignable' else str(rng.choice(['peaky', 'noisy'])), 'seed': int(rng.integers(0, 1 << 30)), 'kind': kind})
            engines.append({'chars': list(BASE), 'lines': lines})
        # the same kind of line in every engine, so that unalignable lines tie at 0.5 with different texts
        for l in range(nl):
            for e in engines[1:]:
                e['lines'][l]['mode'] = engines[0]['lines'][l]['mode'] if engines[0]['lines'][l]['kind'] == 'tie_unalignable' else e['lines'][l]['mode']
                if engines[0]['lines'][l]['kind'] == 'tie_unalignable' and not e['lines'][l]['text']:
                    e['lines'][l]['text'] = 'ab'
            if engines[0]['lines'][l]['kind'] == 'tie_unalignable' and not engines[0]['lines'][l]['text']:
                engines[0]['lines'][l]['text'] = 'ba'
        layouts = [build_layout(L, e, nl) for e in engines]
        if rep % 3 == 2:
            for line in layouts[0].lines_iterator():
                line.transcription_confidence = 0.93           # stale confidences in the first engine's files
        for name, pl in zip(names, layouts):
            d = os.path.join(root, name)
            os.makedirs(d)
            pl.to_pagexml(os.path.join(d, 'page.xml'))
            pl.save_logits(os.path.join(d, 'page.logits'))
        # expected: the in-process merge of the RE-LOADED layouts in command-line order
        loaded = []
        for name in names:
            pl = L.PageLayout(file=os.path.join(root, name, 'page.xml'))
            pl.load_logits(os.path.join(root, name, 'page.logits'))
            loaded.append(pl)
        confs = [[expected_conf(ctx, l) for l in pl.lines_iterator()] for pl in loaded]
        want, best_conf = [], []
        for li in range(nl):
            best, bi = 0, None
            for e in range(len(names)):
                if confs[e][li] > best:
                    best, bi = confs[e][li], e
            want.append(list(loaded[bi if bi is not None else 0].lines_iterator())[li].transcription)
            best_conf.append(best)
            pos = sorted([c[li] for c in confs if c[li] > 0], reverse=True)
            if len(pos) >= 2 and pos[0] == pos[1]:
                mon.count('main_tie_lines')
        old = sys.argv
        # (round 7) every third run asks the script to drop lines that no engine read with more than the given confidence (the inputs carry stale confidences of their own)
        min_conf = [None, None, 0.6][rep % 3]
        sys.argv = ['merge_ocr_results.py', '--output-path', os.path.join(root, 'out')] + ([] if min_conf is None else ['--min-confidence', str(min_conf)]) + [os.path.join(root, n) for n in names]
        try:
            with contextlib.redirect_stdout(io.StringIO()):
                M.main()
        except BaseException as e:
            mon.violation('merge-raises', {'via': 'main()', 'exception': repr(e)[:300]})
            continue
        finally:
            sys.argv = old
        mon.count('main_runs')
        mon.count('extra_evaluations')
        mon.cur_desc = {'leg': 'merge_ocr_results.main()', 'engine_directories_in_command_line_order': names, 'lines': nl}
        out = L.PageLayout(file=os.path.join(root, 'out', 'page.xml'))
        got = [l.transcription for l in out.lines_iterator()]
        if min_conf is not None:
            mon.count('main_runs_with_a_minimum_confidence')
            if any(abs(c - min_conf) < 1e-6 for c in best_conf):
                continue
            # a line that some engine read with a positive confidence is dropped iff that maximum does not exceed the minimum; a line that no engine read with a positive
            # confidence keeps whatever confidence it came with (the statement records a maximum only 'when positive'), so nothing is demanded for it
            ids = [l.id for l in loaded[0].lines_iterator()]
            got_by_id = {l.id: l.transcription for l in out.lines_iterator()}
            got = [got_by_id.get(i, '<dropped>') for i, c in zip(ids, best_conf) if c > 0]
            want = [(t if c > min_conf else '<dropped>') for t, c in zip(want, best_conf) if c > 0]
        norm = lambda t: t if t else None
        if [norm(x) for x in got] != [norm(x) for x in want]:
            mon.violation('keeps-most-confident-transcription', {'via': 'main()', 'directories': names, 'got': got, 'expected': want, 'confidences': confs})
