"""C18 Detection maps decode to one line per ridge, in original-image coordinates."""
import contextlib
import io

import numpy as np

ID = 'C18'
LEVEL = 'exploration'
TECHNIQUE = ('runtime monitoring: ground-truth oracle from the map generator on the real LayoutEngine.parse (one line per ridge, end points / vertical position / heights within the stated '
             'tolerance) and a metamorphic oracle for rotated analysis (detect(I, rot=k) vs the exact inverse rotation of detect(rot90(I, k), rot=0), plus distance to the stroke drawn in the original image)')
RULE = ('synthetic maps 40-400 x 60-600 with 1-8 straight or gently sloped ridges (3 rows thick, strongest in the middle) of length >= 6 px, pointwise vertical separation >= 15 px, random '
        'ascender / descender values, with and without end-point responses, ds in {1,2,3,4,8}; LayoutEngine.detect on non-square images (both aspect orders) with rot 0/1/2/3 and a stub ParseNet. '
        'non-trivial = map with >= 2 ridges or a rotated detection; distinct = hash of the ridge list / stroke list and parameters detect with adaptive resolution on tall text; rotated analysis at factors 4 and 8 on pages whose sides are not multiples; one maps array decoded four times with end-point weight 2. Ridges in row 1 and row H-2; parallel sloped ridges with overlapping boxes; heights below one map pixel.')
RULE += ' Round 6: One-row ridges; seven-row ridges with vertical connection ranges 1 and 9; negative height responses on half of a ridge.'
ASSUMPTIONS = ['ridges are 3 map rows thick with the maximum in the middle row (a one-row ridge of probability < 0.9 is eroded by the engine\'s own 3x3 smoothing)',
               'with end-point responses (overlapping one ridge pixel at each end) the ridge is at least 9 px long', 'expected end points ds*(x0-2), ds*(x1+2) within 1.5*ds; vertical position within 0.9*ds; heights within 0.5*ds',
               'lines of the two runs of the rotation clause are matched by nearest end points (the engine orders lines with random jitter)']
RULE += ' Round 9: One-row ridges on the first and the last map row, 1.75-3 times the detection threshold.'
N = {'quick': 340, 'thorough': 17000}
CLASSES = ['maps', 'maps', 'maps_sloped', 'maps_endpoints', 'maps_many', 'detect_rot', 'detect_rot', 'maps_short', 'detect_columns', 'columns_separator', 'detect_adaptive', 'maps_parallel_sloped', 'maps_tiny_heights', 'maps_border', 'maps_one_row', 'maps_thick', 'maps_mixed_heights']
REQUIRED = ['one_row_ridges_on_the_first_or_last_map_row', 'decodes_with_another_connection_range', 'ridges_with_negative_height_responses', 'one_row_ridges', 'tiny_height_outlines', 'parallel_sloped_ridges', 'border_ridges', 'repeated_decodes_of_one_array', 'adaptive_detections', 'adaptive_proposals', 'rotated_pages_with_sides_not_multiple_of_ds', 'separator_pages', 'column_pages', 'same_row_pairs', 'parse_calls', 'ridges_checked', 'sloped_ridges', 'endpoint_ridges', 'short_ridges', 'detect_pairs', 'rotated_lines_compared', 'rot1', 'rot2', 'rot3', 'regions_compared']
SHARDS = {'quick': 8, 'thorough': 16}
# 'within one pixel': the engine's un-rotation uses W - y where the exact inverse is W - 1 - y (exactly 1 px apart); outlines are float32
# arrays, so the observed difference can exceed 1 by float32 round-off (1.0000038 seen at x = 290 in the thorough tier)
ROT_TOL = 1.0 + 1e-3


def setup(ctx):
    import torch
    from pero_ocr.layout_engines.cnn_layout_engine import LayoutEngine
    from vf import stubs
    ctx.stubs = stubs
    p = stubs.make_parsenet(ctx.tmpdir + '/parsenet.pt')
    with contextlib.redirect_stdout(io.StringIO()):
        ctx.eng = LayoutEngine(p, torch.device('cpu'), downsample=2, adaptive_downsample=False, detection_threshold=0.2)
        # rotated analysis at coarser resolutions (page sides that are not multiples of the factor), a decoder with a non-default end-point weight
        ctx.eng_ds = {ds: LayoutEngine(p, torch.device('cpu'), downsample=ds, adaptive_downsample=False, detection_threshold=0.2) for ds in (4, 8)}
        ctx.eng_conn = {k: LayoutEngine(p, torch.device('cpu'), downsample=2, adaptive_downsample=False, detection_threshold=0.2, vertical_line_connection_range=k) for k in (1, 9)}
        ctx.eng_lew = LayoutEngine(p, torch.device('cpu'), downsample=2, adaptive_downsample=False, detection_threshold=0.2, line_end_weight=2.0)
        ctx.parsenet_path, ctx.LayoutEngine, ctx.torch = p, LayoutEngine, torch
        ps = stubs.make_parsenet_with_separators(ctx.tmpdir + '/parsenet_sep.pt')
        ctx.eng_sep = {ds: LayoutEngine(ps, torch.device('cpu'), downsample=ds, adaptive_downsample=False, detection_threshold=0.2) for ds in (2, 4)}


def gen(rng, i, ctx):
    cls = CLASSES[i % len(CLASSES)]
    if cls == 'columns_separator':
        # two columns divided by a separator response; a line of one column ends between two lines of the other and reaches a few map pixels across the separator
        Hm, Wm = 100, 240
        sep = int(rng.integers(100, 112))
        yl = int(rng.integers(40, 52))
        ridges = [(int(rng.integers(6, 20)), sep + int(rng.integers(2, 5)), yl),
                  (sep - int(rng.integers(1, 4)), int(rng.integers(180, 230)), yl - int(rng.integers(13, 17))),
                  (sep - int(rng.integers(1, 4)), int(rng.integers(180, 230)), yl + int(rng.integers(13, 17)))]
        if rng.random() < 0.5:
            ridges.append((sep - 2, int(rng.integers(170, 230)), yl + int(rng.integers(28, 34))))
        return {'cls': cls, 'map_size': [Hm, Wm], 'separator_x': sep, 'ridges': ridges, 'ds': int(rng.choice([2, 4])), 'mirrored': bool(rng.random() < 0.5), 'rot': int(rng.integers(0, 4))}
    if cls == 'detect_columns':
        # two text columns whose lines sit on the same rows, with different extents and different heights per line
        Himg, Wimg = int(rng.integers(300, 460)) // 2 * 2, int(rng.integers(600, 760)) // 2 * 2
        rows = list(range(60, Himg - 60, int(rng.integers(56, 90))))[:int(rng.integers(1, 5))]
        strokes = []
        for y in rows:
            xl0 = int(rng.integers(30, 80)); xl1 = int(rng.integers(xl0 + 100, Wimg // 2 - 40))
            xr0 = int(rng.integers(Wimg // 2 + 40, Wimg // 2 + 90)); xr1 = int(rng.integers(xr0 + 100, Wimg - 30))
            strokes.append(('h', y, xl0, xl1, int(rng.integers(8, 20)), int(rng.integers(2, 5))))
            if rng.random() < 0.85:
                strokes.append(('h', y, xr0, xr1, int(rng.integers(8, 20)), int(rng.integers(6, 10))))
        return {'cls': cls, 'size': [Himg, Wimg], 'strokes': strokes, 'rot': int(rng.choice([0, 0, 2]))}
    if cls == 'detect_rot':
        tall = bool(rng.random() < 0.5)
        Himg, Wimg = (int(rng.integers(500, 700)), int(rng.integers(300, 460))) if tall else (int(rng.integers(300, 460)), int(rng.integers(500, 700)))
        Himg, Wimg = Himg // 2 * 2, Wimg // 2 * 2
        rot = int(rng.integers(0, 4))
        # strokes must be horizontal in the rotated image: for rot 1/3 they are vertical in the original
        strokes = []
        if rot in (0, 2):
            ys = list(range(60, Himg - 60, int(rng.integers(50, 90))))[:int(rng.integers(1, 5))]
            for y in ys:
                x0 = int(rng.integers(30, Wimg // 3)); x1 = int(rng.integers(x0 + 80, Wimg - 30))
                strokes.append(('h', y, x0, x1))
        else:
            xs = list(range(60, Wimg - 60, int(rng.integers(50, 90))))[:int(rng.integers(1, 5))]
            for x in xs:
                y0 = int(rng.integers(30, Himg // 3)); y1 = int(rng.integers(y0 + 80, Himg - 30))
                strokes.append(('v', x, y0, y1))
        case = {'cls': cls, 'size': [Himg, Wimg], 'rot': rot, 'strokes': strokes, 'asc': int(rng.integers(8, 16)), 'desc': int(rng.integers(3, 7))}
        # drawn last: in a third of the cases the page is analysed at a coarser resolution and its sides are not multiples of the factor
        if rng.random() < 0.35:
            case['ds'] = int(rng.choice([4, 8]))
            case['size'] = [Himg + int(rng.integers(1, case['ds'])), Wimg + int(rng.integers(1, case['ds']))]
        return case
    if cls == 'detect_adaptive':
        # adaptive resolution: tall text on a page analysed with a configured factor of 7; the proposed factor is clamped to 8, which is within 20 % of 7,
        # so the first maps are kept (and so must be their factor)
        Himg, Wimg = int(rng.integers(640, 800)), int(rng.integers(800, 1000))
        ys = list(range(90, Himg - 90, int(rng.integers(110, 150))))[:int(rng.integers(3, 6))]
        strokes = [('h', y, int(rng.integers(40, 120)), int(rng.integers(Wimg - 250, Wimg - 40))) for y in ys]
        return {'cls': cls, 'size': [Himg, Wimg], 'strokes': strokes, 'asc': int(rng.integers(22, 38)), 'desc': int(rng.integers(5, 9)), 'downsample': float(rng.choice([7, 7.5, 6.9]))}
    H, W = int(rng.integers(40, 401)), int(rng.integers(60, 601))
    if cls == 'maps_parallel_sloped':
        # parallel sloped ridges 16-22 rows apart whose rise over their length exceeds that distance: their bounding boxes overlap
        H, W = int(rng.integers(140, 300)), int(rng.integers(340, 600))
        slope = float(rng.choice([-1, 1])) * float(rng.uniform(0.06, 0.08))
        x0, x1 = int(rng.integers(5, 30)), int(rng.integers(W - 40, W - 6))
        rise = abs(slope) * (x1 - x0)
        ridges, y = [], 12 + (rise if slope < 0 else 0)
        while y + (rise if slope > 0 else 0) < H - 12 and len(ridges) < 5:
            ridges.append({'x0': x0 + int(rng.integers(0, 6)), 'x1': x1 - int(rng.integers(0, 6)), 'y0': float(y), 'slope': slope, 'asc': float(rng.uniform(3, 7)), 'desc': float(rng.uniform(1, 4)),
                           'p': float(rng.uniform(0.6, 1.0)), 'endpoints': False})
            y += int(rng.integers(16, 23))
        return {'cls': cls, 'size': [H, W], 'ridges': ridges, 'ds': int(rng.choice([1, 2, 4]))}
    if cls == 'maps_tiny_heights':
        # ascender / descender responses below one map pixel on flat ridges
        ridges, y = [], 14
        while y < H - 14 and len(ridges) < 4:
            x0 = int(rng.integers(4, max(5, W // 3)))
            ridges.append({'x0': x0, 'x1': int(rng.integers(x0 + 12, W - 4)), 'y0': float(y), 'slope': 0.0, 'asc': float(rng.choice([0.0, 0.25, 0.5, 0.75])), 'desc': float(rng.choice([0.0, 0.25, 0.5])),
                           'p': float(rng.uniform(0.6, 1.0)), 'endpoints': False})
            y += int(rng.integers(18, 40))
        return {'cls': cls, 'size': [H, W], 'ridges': ridges, 'ds': int(rng.choice([2, 4, 8]))}
    if cls == 'maps_one_row':
        # ridges one map row thick (the engine's own 3x3 smoothing spreads them over three equal rows), 6-12 columns long, strong enough to survive it
        ridges, y = [], 14
        while y < H - 14 and len(ridges) < 4:
            x0 = int(rng.integers(6, max(7, W // 2)))
            x1 = min(W - 6, x0 + int(rng.integers(5, 12)))
            ridges.append({'x0': x0, 'x1': x1, 'y0': float(y), 'slope': 0.0, 'asc': float(rng.uniform(3, 9)), 'desc': float(rng.uniform(1, 4)), 'p': float(rng.uniform(0.66, 1.0)), 'endpoints': False, 'rows': 1})
            y += int(rng.integers(18, 40))
        return {'cls': cls, 'size': [H, W], 'ridges': [r for r in ridges if r['x1'] - r['x0'] >= 5], 'ds': int(rng.choice([1, 2, 4])), 'connection_range': int(rng.choice([1, 5, 9]))}
    if cls == 'maps_thick':
        # ridges seven rows thick with a single crest, decoded by engines with a vertical connection range of 1, 5 or 9
        ridges, y = [], 16
        while y < H - 16 and len(ridges) < 4:
            x0 = int(rng.integers(4, max(5, W // 3)))
            ridges.append({'x0': x0, 'x1': int(rng.integers(min(x0 + 10, W - 5), W - 4)) if x0 + 10 < W - 4 else x0 + 10, 'y0': float(y), 'slope': 0.0, 'asc': float(rng.uniform(3, 9)), 'desc': float(rng.uniform(1, 4)),
                           'p': float(rng.uniform(0.6, 1.0)), 'endpoints': False, 'rows': 7})
            y += int(rng.integers(22, 40))
        return {'cls': cls, 'size': [H, W], 'ridges': [r for r in ridges if r['x1'] <= W - 4], 'ds': int(rng.choice([1, 2, 4])), 'connection_range': int(rng.choice([1, 5, 9]))}
    if cls == 'maps_mixed_heights':
        # the height regression is negative on half of a ridge's columns (it is clamped at 0 there): the line's height is the median of the clamped values
        ridges, y = [], 14
        while y < H - 14 and len(ridges) < 4:
            x0 = int(rng.integers(4, max(5, W // 3)))
            n_ = 2 * int(rng.integers(5, 20))
            if x0 + n_ - 1 > W - 5:
                break
            ridges.append({'x0': x0, 'x1': x0 + n_ - 1, 'y0': float(y), 'slope': 0.0, 'asc': float(rng.uniform(6, 12)), 'desc': float(rng.uniform(2, 5)), 'p': float(rng.uniform(0.6, 1.0)), 'endpoints': False,
                           'neg_half': str(rng.choice(['asc', 'desc'])), 'neg_value': float(-rng.uniform(2, 8))})
            y += int(rng.integers(18, 40))
        return {'cls': cls, 'size': [H, W], 'ridges': ridges, 'ds': int(rng.choice([1, 2, 4]))}
    if cls == 'maps_border':
        # a ridge two rows below the top border and a stronger one two rows above the bottom border, sharing columns (and one in the middle)
        H = int(rng.integers(60, 200))
        xa, xb = int(rng.integers(5, W // 3)), int(rng.integers(W // 2, W - 5))
        pw, ps = float(rng.uniform(0.42, 0.5)), float(rng.uniform(0.9, 1.0))
        top_weak = bool(rng.random() < 0.5)
        ridges = [{'x0': xa, 'x1': xb, 'y0': 1.0, 'slope': 0.0, 'asc': 0.5, 'desc': 3.0, 'p': pw if top_weak else ps, 'endpoints': False},
                  {'x0': xa + 3, 'x1': xb - 2, 'y0': float(H // 2), 'slope': 0.0, 'asc': 5.0, 'desc': 3.0, 'p': 0.8, 'endpoints': False},
                  {'x0': xa + 1, 'x1': xb + 1, 'y0': float(H - 2), 'slope': 0.0, 'asc': 4.0, 'desc': 0.5, 'p': ps if top_weak else pw, 'endpoints': False}]
        if rng.random() < 0.5:
            # one-row ridges ON the first and the last map row (lines touching the page edge), 1.75 to 3 times the detection threshold: the engine's own
            # smoothing duplicates the edge row, so two thirds of the response stay on that row
            for r, yy in ((ridges[0], 0.0), (ridges[2], float(H - 1))):
                r.update({'y0': yy, 'rows': 1, 'p': float(rng.uniform(0.35, 0.6)), 'on_edge_row': True})
        return {'cls': cls, 'size': [H, W], 'ridges': ridges, 'ds': int(rng.choice([1, 2, 4]))}
    ridges = []
    y = int(rng.integers(12, 20))
    nmax = 8 if cls == 'maps_many' else int(rng.integers(1, 6))
    while y < H - 25 and len(ridges) < nmax:
        x0 = int(rng.integers(4, max(5, W // 2)))
        ep = bool(cls == 'maps_endpoints' or rng.random() < 0.25)
        minlen = 9 if ep else 6
        if cls == 'maps_short':
            x1 = x0 + minlen - 1 + int(rng.integers(0, 4))
        else:
            x1 = int(rng.integers(min(x0 + minlen - 1, W - 5), W - 4)) if x0 + minlen - 1 < W - 4 else x0 + minlen - 1
        if x1 > W - 4:
            break
        slope = 0.0
        if cls == 'maps_sloped' or rng.random() < 0.2:
            slope = float(rng.uniform(-0.08, 0.08))
        ys0 = y + (abs(slope) * (x1 - x0) if slope < 0 else 0)
        top = min(ys0, ys0 + slope * (x1 - x0)); bot = max(ys0, ys0 + slope * (x1 - x0))
        if top < 8 or bot > H - 9:
            y += 20
            continue
        ridges.append({'x0': x0, 'x1': x1, 'y0': float(ys0), 'slope': slope, 'asc': float(rng.uniform(3, 14)), 'desc': float(rng.uniform(1, 6)),
                       'p': float(rng.uniform(0.5, 1.0)), 'endpoints': ep})
        y = int(bot + rng.integers(17, 40))
    return {'cls': cls, 'size': [H, W], 'ridges': ridges, 'ds': int(rng.choice([1, 2, 3, 4, 8]))}


def describe(case):
    return case


def build_maps(case):
    H, W = case['size']
    maps = np.zeros((H, W, 5), np.float32)
    rows = []
    for r in case['ridges']:
        xs = np.arange(r['x0'], r['x1'] + 1)
        ys = np.round(r['y0'] + r['slope'] * (xs - r['x0'])).astype(int)
        maps[ys, xs, 2] = r['p']
        if r.get('rows', 3) == 3:
            maps[ys - 1, xs, 2] = np.maximum(maps[ys - 1, xs, 2], 0.6 * r['p'])
            maps[ys + 1, xs, 2] = np.maximum(maps[ys + 1, xs, 2], 0.6 * r['p'])
        elif r.get('rows') == 7:
            for dy, f in ((1, 0.8), (2, 0.55), (3, 0.3)):
                maps[ys - dy, xs, 2] = np.maximum(maps[ys - dy, xs, 2], f * r['p'])
                maps[ys + dy, xs, 2] = np.maximum(maps[ys + dy, xs, 2], f * r['p'])
        for dy in (-2, -1, 0, 1, 2):
            ok = (ys + dy >= 0) & (ys + dy < H)              # (ridges next to the border)
            maps[(ys + dy)[ok], xs[ok], 0] = r['asc']
            maps[(ys + dy)[ok], xs[ok], 1] = r['desc']
        if r.get('neg_half'):
            half = len(xs) // 2
            ch = 0 if r['neg_half'] == 'asc' else 1
            for dy in (-2, -1, 0, 1, 2):
                maps[ys[:half] + dy, xs[:half], ch] = r['neg_value']
        if r['endpoints']:
            maps[ys[0] - 1:ys[0] + 2, max(0, r['x0'] - 1):r['x0'] + 1, 3] = 1.0
            maps[ys[-1] - 1:ys[-1] + 2, r['x1']:r['x1'] + 2, 3] = 1.0
        rows.append((xs, ys))
    return maps, rows


def check(case, mon, ctx):
    if case['cls'] == 'detect_rot':
        return check_rot(case, mon, ctx)
    if case['cls'] == 'detect_columns':
        return check_columns(case, mon, ctx)
    if case['cls'] == 'columns_separator':
        return check_separator(case, mon, ctx)
    if case['cls'] == 'detect_adaptive':
        return check_adaptive(case, mon, ctx)
    eng = ctx.eng if case.get('connection_range', 5) == 5 else ctx.eng_conn[case['connection_range']]
    if case.get('connection_range', 5) != 5:
        mon.count('decodes_with_another_connection_range')
    ds = case['ds']
    maps, rows = build_maps(case)
    if len(case['ridges']) >= 2:
        mon.mark_nontrivial()
    with contextlib.redirect_stdout(io.StringIO()):
        b, h, t = eng.parse(maps.copy(), ds)
    mon.count('parse_calls')
    mon.observe('parsed lines', sorted([np.round(np.asarray(bb, dtype=np.float64), 3).tolist(), np.round(np.asarray(hh, dtype=np.float64), 3).tolist()] for bb, hh in zip(b, h)))
    if len(b) != len(case['ridges']) or len(h) != len(b) or len(t) != len(b):
        mon.violation('one-line-per-ridge', {'lines': len(b), 'ridges': len(case['ridges']), 'first_points': [bb[0].tolist() for bb in b][:8]})
        return
    used = set()
    for r, (xs, ys) in zip(case['ridges'], rows):
        mon.count('ridges_checked')
        if r['slope'] != 0:
            mon.count('sloped_ridges')
        if case['cls'] == 'maps_parallel_sloped':
            mon.count('parallel_sloped_ridges')
        if r.get('rows') == 1:
            mon.count('one_row_ridges')
        if case['cls'] == 'maps_border' and (r['y0'] < 4 or r['y0'] > case['size'][0] - 5):
            mon.count('border_ridges')
        if r.get('on_edge_row'):
            mon.count('one_row_ridges_on_the_first_or_last_map_row')
        if r['endpoints']:
            mon.count('endpoint_ridges')
        if r['x1'] - r['x0'] + 1 <= 9:
            mon.count('short_ridges')
        j = int(np.argmin([abs(bb[0, 1] / ds - ys[0]) + abs(bb[0, 0] / ds - r['x0']) for bb in b]))
        if j in used:
            mon.violation('one-line-per-ridge', {'note': 'two ridges matched to the same line', 'ridge': r})
            continue
        used.add(j)
        bb = np.asarray(b[j], dtype=np.float64) / ds
        hh = np.asarray(h[j], dtype=np.float64) / ds
        w = {'ridge': r, 'ds': ds, 'baseline': b[j], 'heights': h[j]}
        e0, e1 = bb[0, 0] - (r['x0'] - 2), bb[-1, 0] - (r['x1'] + 2)
        mon.observe_max('endpoint_error_map_px', max(abs(e0), abs(e1)))
        if abs(e0) > 1.5 or abs(e1) > 1.5:
            mon.violation('end-points-match-the-map', dict(w, left_error=float(e0), right_error=float(e1)))
        if np.any(np.diff(bb[:, 0]) <= 0):
            mon.violation('end-points-match-the-map', dict(w, note='baseline does not run left to right'))
        yref = r['y0'] + r['slope'] * (np.clip(bb[:, 0], r['x0'], r['x1']) - r['x0'])
        ey = float(np.abs(bb[:, 1] - yref).max())
        mon.observe_max('vertical_error_map_px', ey)
        at_border = r['y0'] < 3 or r['y0'] > case['size'][0] - 4         # (the engine's 3x3 smoothing is one-sided at the border: up to one more row)
        if ey > (0.9 if not at_border else 1.5) + (0.2 if r.get('rows') == 1 else 0.0):      # (a one-row ridge becomes three equal rows after smoothing; the top one is taken: exactly 1 row off)      # rounding of a sloped ridge (0.5) + end-point compensation on a slope (2 * 0.08)
            mon.violation('vertical-position-matches-the-map', dict(w, max_error=ey))
        e_asc, e_desc = r['asc'], r['desc']
        if r.get('neg_half'):
            mon.count('ridges_with_negative_height_responses')
            half = (r['x1'] - r['x0'] + 1) // 2
            vals = [0.0] * half + [r[r['neg_half']]] * (r['x1'] - r['x0'] + 1 - half)          # negative responses count as 0
            if r['neg_half'] == 'asc':
                e_asc = float(np.median(vals))
            else:
                e_desc = float(np.median(vals))
        ea, ed = float(hh[0] - e_asc), float(hh[1] - e_desc)
        if r.get('neg_half'):
            # which columns of the ridge end up in the decoded line is not fixed to the pixel (end columns erode): the clamped values are 0 on one half and v on the
            # other, so their median is 0, v/2 or v
            v_ = r[r['neg_half']]
            best = min(abs(float(hh[0 if r['neg_half'] == 'asc' else 1]) - c_) for c_ in (0.0, v_ / 2, v_))
            ea, ed = (best, ed) if r['neg_half'] == 'asc' else (ea, best)
        mon.observe_max('height_error_map_px', max(abs(ea), abs(ed)))
        if abs(ea) > 0.5 or abs(ed) > 0.5:
            mon.violation('heights-match-the-map', dict(w, asc_error=ea, desc_error=ed))
        # outline = band around the baseline
        tt = np.asarray(t[j], dtype=np.float64) / ds
        if tt[:, 1].min() > bb[:, 1].min() - 0.5 * hh[0] or tt[:, 1].max() < bb[:, 1].max() + 0.5 * hh[1]:
            mon.violation('outline-encloses-the-baseline-band', dict(w, outline=t[j]))
        if case['cls'] == 'maps_tiny_heights':
            # flat ridge: the outline is the band from max(1 px, ascender) above to max(1 px, descender) below the baseline, in image pixels
            mon.count('tiny_height_outlines')
            up, down = float(bb[:, 1].min() - tt[:, 1].min()) * ds, float(tt[:, 1].max() - bb[:, 1].max()) * ds
            eu, ed_ = max(1.0, ds * r['asc']), max(1.0, ds * r['desc'])
            if abs(up - eu) > 0.3 * ds + 1e-6 or abs(down - ed_) > 0.3 * ds + 1e-6:
                mon.violation('outline-encloses-the-baseline-band', dict(w, outline_extends_px=[up, down], expected_px=[eu, ed_], note='heights below one map pixel'))
    # history: the SAME maps array decoded several times by a decoder with a non-default end-point weight gives the same lines every time
    m2 = maps.copy()
    for xs, ys in rows:
        k_ = min(8, len(xs) // 3)
        if k_:
            m2[ys[:k_], xs[:k_], 3] = 0.06
            m2[ys[-k_:], xs[-k_:], 3] = 0.06            # weak, wide end-point responses
    res = []
    with contextlib.redirect_stdout(io.StringIO()):
        for _ in range(4):
            bb_, hh_, tt_ = ctx.eng_lew.parse(m2, ds)
            res.append(sorted(np.round(np.asarray(x, dtype=np.float64), 3).tolist() for x in bb_))      # (the decoder returns the lines in no particular order)
    mon.count('repeated_decodes_of_one_array')
    if any(r != res[0] for r in res[1:]):
        kbad = next(i for i, r in enumerate(res) if r != res[0])
        mon.violation('decoding-the-same-maps-again-gives-the-same-lines', {'line_end_weight': 2.0, 'decode_number': kbad + 1, 'lines_first': len(res[0]), 'lines_then': len(res[kbad]),
                      'first_baseline_first': res[0][:1], 'first_baseline_then': res[kbad][:1]})


def check_adaptive(case, mon, ctx):
    """LayoutEngine.detect with adaptive resolution on tall text: the returned coordinates are those of the strokes in the image"""
    Himg, Wimg = case['size']
    hl = [(s[1], s[2], s[3]) for s in case['strokes']]
    img = ctx.stubs.stroke_image(hl, [], H=Himg, W=Wimg, asc=case['asc'], desc=case['desc'], half=16, hthick=12)
    with contextlib.redirect_stdout(io.StringIO()):
        eng = ctx.LayoutEngine(ctx.parsenet_path, ctx.torch.device('cpu'), downsample=case['downsample'], adaptive_downsample=True, detection_threshold=0.2)
        first = eng.parsenet.last_downsample
        pa, ba, ha, ta = eng.detect(img.copy(), rot=0)
    mon.count('adaptive_detections')
    mon.mark_nontrivial()
    w = {'size': case['size'], 'configured_downsample': case['downsample'], 'factor_left_for_the_next_page': float(eng.parsenet.last_downsample), 'strokes': case['strokes'], 'ascender': case['asc']}
    if eng.parsenet.last_downsample != first:
        mon.count('adaptive_proposals')
    if len(ba) != len(hl):
        mon.violation('one-line-per-ridge', dict(w, lines=len(ba)))
        return
    tol = 8 + 2
    for b in ba:
        b = np.asarray(b, dtype=np.float64)
        best = min(max(np.abs(b[:, 1] - y).max(), abs(b[:, 0].min() - x0) - 3 * 8, abs(b[:, 0].max() - x1) - 3 * 8) for y, x0, x1 in hl)
        mon.observe_max('adaptive_distance_to_stroke_px', best)
        if best > tol:
            mon.violation('coordinates-match-the-map-scaled-by-its-factor', dict(w, baseline=b, distance=float(best)))


def inverse(pts, k, H, W):
    """exact map from coordinates in np.rot90(I, k) back to I (I has H rows, W columns); pts are (x', y')"""
    pts = np.asarray(pts, dtype=np.float64)
    x, y = pts[:, 0], pts[:, 1]
    if k == 0:
        return pts.copy()
    if k == 1:
        return np.stack([W - 1 - y, x], 1)
    if k == 2:
        return np.stack([W - 1 - x, H - 1 - y], 1)
    return np.stack([y, H - 1 - x], 1)


def check_rot(case, mon, ctx):
    ds_ = case.get('ds', 2)
    eng = ctx.eng if ds_ == 2 else ctx.eng_ds[ds_]
    Himg, Wimg = case['size']
    k = case['rot']
    hl = [(s[1], s[2], s[3]) for s in case['strokes'] if s[0] == 'h']
    vl = [(s[1], s[2], s[3]) for s in case['strokes'] if s[0] == 'v']
    th = 2 if ds_ == 2 else 2 * ds_            # strokes thick enough to give a ridge of about three map rows at this resolution
    img = ctx.stubs.stroke_image(hl, vl, H=Himg, W=Wimg, asc=case['asc'], desc=case['desc'], half=max(8, th + 2), vthick=th, hthick=th)
    if ds_ != 2:
        mon.count('rotated_pages_with_sides_not_multiple_of_ds')
    with contextlib.redirect_stdout(io.StringIO()):
        pa, ba, ha, ta = eng.detect(img.copy(), rot=k)
        pr, br, hr, tr = eng.detect(np.ascontiguousarray(np.rot90(img, k=k)), rot=0)
    mon.count('detect_pairs')
    mon.count('rot%d' % k)
    mon.mark_nontrivial()
    w = {'rot': k, 'size': case['size']}
    if len(ba) != len(br) or len(pa) != len(pr):
        mon.violation('rotated-analysis-returns-original-coordinates', dict(w, note='different number of lines / regions', lines=[len(ba), len(br)], regions=[len(pa), len(pr)]))
        return
    if len(ba) != len(case['strokes']):
        mon.violation('one-line-per-ridge', dict(w, lines=len(ba), strokes=len(case['strokes'])))
        return
    exp_b = [inverse(b, k, Himg, Wimg) for b in br]
    exp_t = [inverse(t, k, Himg, Wimg) for t in tr]
    used = set()
    for b, t, hh in zip(ba, ta, ha):
        b = np.asarray(b, dtype=np.float64)
        d = [np.abs(b - e).max() if e.shape == b.shape else np.inf for e in exp_b]
        j = int(np.argmin(d))
        mon.count('rotated_lines_compared')
        mon.observe_max('rotation_baseline_error_px', d[j])
        if d[j] > ROT_TOL or j in used:
            mon.violation('rotated-analysis-returns-original-coordinates', dict(w, what='baseline', got=b, expected=exp_b[j], error=float(d[j])))
            continue
        used.add(j)
        te = exp_t[j]
        if te.shape != np.asarray(t).shape or np.abs(np.asarray(t, dtype=np.float64) - te).max() > ROT_TOL:
            mon.violation('rotated-analysis-returns-original-coordinates', dict(w, what='outline', got=t, expected=te))
        # and the line really lies on a stroke of the ORIGINAL image
        best = np.inf
        for s in case['strokes']:
            me = 3 * ds_            # the decoder extends a line by two map pixels at each end (+ one for the resampling)
            if s[0] == 'h':
                dist = max(np.abs(b[:, 1] - s[1]).max(), max(0, s[2] - me - b[:, 0].min()), max(0, b[:, 0].max() - s[3] - me))
            else:
                dist = max(np.abs(b[:, 0] - s[1]).max(), max(0, s[2] - me - b[:, 1].min()), max(0, b[:, 1].max() - s[3] - me))
            best = min(best, dist)
        mon.observe_max('distance_to_stroke_px', best)
        if best > 2 * ds_ + 2:
            mon.violation('rotated-analysis-returns-original-coordinates', dict(w, what='baseline is not on a stroke of the original image', baseline=b, strokes=case['strokes'], distance=float(best)))
    # regions
    exp_p = [inverse(p, k, Himg, Wimg) for p in pr]
    for p in pa:
        p = np.asarray(p, dtype=np.float64)
        mon.count('regions_compared')
        ok = False
        for e in exp_p:
            if e.shape == p.shape and np.abs(p - e).max() <= ROT_TOL:
                ok = True
        if not ok:
            # region polygons may start at a different vertex: compare as shapes (boundaries within 1 px)
            from vf.genlib import same_polygon_shape
            # (one pixel per coordinate is up to sqrt(2) px between the boundaries)
            ok = any(same_polygon_shape(p, e, ROT_TOL * 1.4143) for e in exp_p if len(e) >= 3)
        if not ok:
            mon.violation('rotated-analysis-returns-original-coordinates', dict(w, what='region', got=p, expected=[e.tolist() for e in exp_p][:3]))


def check_columns(case, mon, ctx):
    """baseline i, heights i and outline i returned by detect() must describe the SAME line (lines on one row in two columns)"""
    import shapely.geometry as sg
    eng = ctx.eng
    Himg, Wimg = case['size']
    k = case['rot']
    img = np.zeros((Himg, Wimg, 3), np.uint8)
    for _, y, x0, x1, asc, desc in case['strokes']:
        img[y - 2:y + 2, x0:x1, 2] = 255
        img[y - 8:y + 8, x0:x1, 0] = int(255 * asc / 40)
        img[y - 8:y + 8, x0:x1, 1] = int(255 * desc / 20)
    src = img if k == 0 else np.ascontiguousarray(np.rot90(img, k=4 - k))     # so that rot=k analyses the upright text
    with contextlib.redirect_stdout(io.StringIO()):
        p, b, h, t = eng.detect(src.copy(), rot=k)
    mon.count('column_pages')
    mon.mark_nontrivial()
    rows = {}
    for s_ in case['strokes']:
        rows.setdefault(s_[1], []).append(s_)
    mon.count('same_row_pairs', sum(1 for v in rows.values() if len(v) == 2))
    w = {'rot': k, 'size': case['size'], 'strokes': case['strokes']}
    if not (len(b) == len(h) == len(t) == len(case['strokes'])):
        mon.violation('one-line-per-ridge', dict(w, lines=[len(b), len(h), len(t)]))
        return
    # coordinates of a rot=2 analysis refer to `src`; map the strokes into src coordinates
    def to_src(x, y):
        return (x, y) if k == 0 else (Wimg - 1 - x, Himg - 1 - y)
    for i in range(len(b)):
        bi = np.asarray(b[i], dtype=np.float64)
        # which stroke is this baseline?
        best, bs = np.inf, None
        for s_ in case['strokes']:
            _, y, x0, x1, asc, desc = s_
            (ax, ay), (bx, by) = to_src(x0, y), to_src(x1, y)
            d = max(np.abs(bi[:, 1] - ay).max(), max(0, min(ax, bx) - 8 - bi[:, 0].min()), max(0, bi[:, 0].max() - max(ax, bx) - 8))
            if d < best:
                best, bs = d, s_
        if best > 8:
            mon.violation('rotated-analysis-returns-original-coordinates', dict(w, what='baseline is not on a stroke', baseline=bi))
            continue
        asc, desc = 2 * bs[4], 2 * bs[5]       # the stub network reports heights in map pixels; the engine (down-sampling 2) returns image pixels
        hi = np.asarray(h[i], dtype=np.float64)
        if abs(hi[0] - asc) > 1.5 or abs(hi[1] - desc) > 1.5:
            mon.violation('heights-match-the-map', dict(w, note='heights returned at this position belong to another line', line=i, baseline=bi, heights=hi, expected=[asc, desc]))
        ti = sg.Polygon(np.asarray(t[i], dtype=np.float64))
        if not ti.buffer(1.0).contains(sg.LineString(bi)):
            mon.violation('outline-encloses-the-baseline-band', dict(w, note='outline returned at this position does not contain the baseline returned at the same position', line=i, baseline=bi, outline=t[i]))


def check_separator(case, mon, ctx):
    """two columns with a separator: after the standard region assignment (as LayoutExtractor does it) every ridge yields exactly one text line"""
    import shapely.geometry as sg
    from pero_ocr.core.layout import RegionLayout
    from pero_ocr.layout_engines import layout_helpers as helpers
    Hm, Wm = case['map_size']
    ds, k = case['ds'], case['rot']
    m = np.zeros((Hm, Wm, 3), np.uint8)
    for x0, x1, y in case['ridges']:
        m[y, x0:x1 + 1, 0] = 255
        m[y - 1, x0:x1 + 1, 0] = 76
        m[y + 1, x0:x1 + 1, 0] = 76
        m[y - 2:y + 3, x0:x1 + 1, 2] = 75
    m[0:Hm - 10, case['separator_x']:case['separator_x'] + 2, 1] = 255
    if case['mirrored']:
        m = np.ascontiguousarray(m[:, ::-1])
    img = np.repeat(np.repeat(m, ds, axis=0), ds, axis=1)
    src = np.ascontiguousarray(np.rot90(img, k=-k))
    eng = ctx.eng_sep[ds]
    with contextlib.redirect_stdout(io.StringIO()):
        p_list, b_list, h_list, t_list = eng.detect(src, rot=k)
    mon.count('separator_pages')
    mon.mark_nontrivial()
    n = len(case['ridges'])
    w = {'ridges': case['ridges'], 'separator_x': case['separator_x'], 'ds': ds, 'mirrored': case['mirrored'], 'rot': k}
    if len(b_list) != n:
        mon.violation('one-line-per-ridge', dict(w, lines=len(b_list), where='LayoutEngine.detect'))
        return
    regions = [RegionLayout('r%03d' % i, p) for i, p in enumerate(p_list)]
    with contextlib.redirect_stdout(io.StringIO()):
        regions = helpers.assign_lines_to_regions(b_list, h_list, t_list, regions)
    lines = [(r.id, l.id, np.round(np.asarray(l.baseline)[[0, -1]]).tolist()) for r in regions for l in r.lines]
    if len(lines) != n:
        mon.violation('one-line-per-ridge', dict(w, where='after assigning the detected lines to the detected regions (as the layout extractor does)', text_lines=lines, regions=len(p_list)))
