"""C08 A page's result does not depend on processing history or schedule."""
import configparser
import contextlib
import copy
import io
import itertools
import os
import shutil
import subprocess
import sys

import numpy as np
from scipy import sparse

from vf import pipeline

ID = 'C08'
LEVEL = 'exploration'
TECHNIQUE = ('runtime monitoring: differential history checker ("the page alone on a fresh instance" is the reference) over sequences of pages fed to one long-lived '
             'PageDecoder / PageParser instance, with a recorder on decode_line that logs the carried state at entry; process-level schedule differential '
             '(parse_folder --process-count 1 vs 3, full run vs killed-and-resumed run) comparing output trees')
RULE = ('pools of 4 random pages (1-5 lines, sparse logits, empty and non-empty incoming transcriptions) x decoder configurations (greedy; beam search without LM; with a real '
        'LSTM LM behind the real LMWrapper without and with state carried across lines; confident-line thresholds None/0/0.3/0.9/inf) x histories (all orders of 3 pages, '
        'random sequences of up to 8 pages with repetitions); a full PageParser built from an ini file (cropper + stub OCR + LM decoder) fed image sequences; parse_folder as '
        'real processes. non-trivial = history in which the page under test is preceded by a different page; distinct = hash of (configuration, pool seed, history) Low megapixel limit exceeded by some pages only; even pages end with a skipped confident line and odd pages start with a decoded line; process counts 1, 3 and 8 for 6 pages. parse_folder on a folder (prefix-related names; images without XML with --skipp-missing-xml) vs on each page alone.')
RULE += ' Round 6: Stage histories (over-long line, zero-height first line, single row vs regular rows) with an OCR stub sensitive to the padded batch width.'
RULE += ' Round 7: Scans of two sizes sharing a padded network input; a direct decode_line call or an interrupted page before the page under test.'
RULE += ' Round 8: Invariant at the decode_line hook (no stale LM state over a kept line); pages decoded across the hundredth line of a decoder; an injected out-of-memory fault in the direction filter.'
ASSUMPTIONS = ['the reference result of a page is the one obtained from a freshly constructed instance that processes only that page',
               'transcriptions compared exactly, confidences within 1e-12', 'stub OCR network and toy LM as in C07 / C03']
N = {'quick': 72, 'thorough': 4000}
CLASSES = ['beam_nolm', 'lm_nocarry', 'lm_carry', 'lm_carry', 'greedy', 'lm_carry_threshold', 'page_parser', 'lm_carry', 'layout_history', 'lm_carry', 'layout_history', 'beam_nolm', 'stage_history']
REQUIRED = ['pages_decoded_across_the_hundredth_line_of_a_decoder', 'histories_of_more_than_100_lines', 'histories_with_an_injected_out_of_memory_fault', 'kept_lines_between_decoded_lines', 'direct_decode_line_calls_between_pages', 'pages_after_an_interrupted_page', 'layout_histories_with_two_scan_sizes_sharing_a_padded_size', 'stage_history_pages', 'pages_in_a_folder_vs_alone', 'pages_under_a_limit_that_others_exceed', 'given_line_pages', 'layout_history_pages', 'layout_pages_without_upright_lines', 'histories', 'page_results_compared', 'pages_after_other_page', 'repeated_pages', 'carry_lines_decoded', 'lines_reprimed_from_last_line', 'confident_lines_skipped',
            'page_parser_pages', 'process_pairs_compared', 'resume_runs_compared']
KNOWN_DS = 'adaptive down-sampling factor carried over from the previous page'
LETTERS = list('abc')
SHARDS = {'quick': 8, 'thorough': 16}
TIMEOUT = {'quick': 900, 'thorough': 7200}


def setup(ctx):
    import torch
    from pero_ocr.core import layout
    from pero_ocr.document_ocr import page_parser as pp
    from pero_ocr.decoding import decoders
    from pero_ocr.decoding.lm_wrapper import LMWrapper
    from vf import stubs, hooks
    ctx.torch, ctx.L, ctx.pp, ctx.D, ctx.LMWrapper, ctx.stubs = torch, layout, pp, decoders, LMWrapper, stubs
    ctx.events = []

    def mk(f):
        def w(self, line):
            ev = {'line': line.id, 'last_h_is_none': self.last_h is None, 'last_line': self.last_line, 'state_id': id(self.last_h)}
            ctx.events.append(ev)
            before = self.lines_decoded
            try:
                return f(self, line)
            finally:
                ev['kept_without_decoding'] = self.lines_decoded == before
                ev['state_id_after'] = id(self.last_h) if self.last_h is not None else None
        return w
    hooks.wrap(pp.PageDecoder, 'decode_line', mk)
    ctx.pf_root = None


def gen(rng, i, ctx):
    cls = CLASSES[i % len(CLASSES)]
    thr = None
    if cls == 'lm_carry_threshold' or rng.random() < 0.3:
        thr = [0.0, 0.3, 0.9, float('inf')][int(rng.integers(0, 4))]
    seqs = [list(p) for p in itertools.permutations(range(3))][:: (1 if cls not in ('page_parser', 'layout_history') else 3)]
    if cls == 'layout_history':
        seqs = [[3, 1], [0, 1, 2], [2, 3, 1, 0]]
    for _ in range(2 if cls != 'page_parser' else 1):
        seqs.append([int(x) for x in rng.integers(0, 4, size=int(rng.integers(2, 9 if cls != 'page_parser' else 5)))])
    combos = [dict(multi_orientation=True, adjust_heights=True, line_filter=False, sorter=False, given_lines=False),
              dict(multi_orientation=False, adjust_heights=False, line_filter=False, sorter=False, given_lines=True),
              dict(multi_orientation=True, adjust_heights=True, line_filter=True, sorter=True, given_lines=False),
              dict(multi_orientation=False, adjust_heights=True, line_filter=False, sorter=True, given_lines=False),
              dict(multi_orientation=False, adjust_heights=False, line_filter=False, sorter=False, given_lines=True),
              dict(multi_orientation=True, adjust_heights=False, line_filter=True, sorter=False, given_lines=False)]
    cidx = ((i // len(CLASSES)) * 2 + (1 if i % len(CLASSES) == 10 else 0)) % len(combos)
    opts = dict(combos[cidx], straight_lines=False)   # fixed cycle, so that every tier / seed covers every combination
    # in two of the combinations the megapixel limit is so low that the 600x800 pages exceed it (they are analysed at a coarser resolution) while the small first page does not
    opts['low_megapixel_limit'] = cidx in (0, 3)
    # (DETECT_STRAIGHT_LINES_IN_REGIONS raises a TypeError in detect_lines_in_region on these inputs on the unchanged tree - not a history effect - and is left off)
    if cls == 'lm_carry_threshold':
        thr = [0.3, 0.9, 0.6][(i // len(CLASSES)) % 3]         # thresholds at which some lines are skipped and others decoded, in a fixed cycle
    if cls == 'stage_history':
        return {'cls': cls, 'variant': ['given_lines', 'simple_extractor'][(i // len(CLASSES)) % 2], 'pool_seed': int(rng.integers(0, 1 << 30)),
                'sequences': [[1, 0], [1, 2, 3], [0, 1, 3, 2], [2, 1, 0, 3, 1]] if (i // len(CLASSES)) % 2 == 0 else [[0, 1], [2, 3, 0, 1], [1, 0, 3], [2, 1]]}
    return {'cls': cls, 'layout_options': opts, 'threshold': thr, 'pool_seed': int(rng.integers(0, 1 << 30)), 'lm_seed': int(rng.integers(0, 1 << 30)), 'k': int(rng.choice([1, 2, 4])),
            'lm_scale': float(rng.choice([0.5, 1.0, 2.0])) if cls != 'lm_carry_threshold' else 2.0, 'sequences': seqs}


def describe(case):
    return case


def make_page(L, seed, p):
    rng = np.random.default_rng([seed, p])
    pl = L.PageLayout(id='p%d' % p, page_size=(100, 100))
    reg = L.RegionLayout('r', np.array([[0, 0], [10, 0], [10, 10]]))
    n = int(rng.integers(1, 6))
    for l in range(n):
        T = int(rng.integers(2, 9))
        scale = float(rng.choice([1, 3, 10, 30]))
        t = ''.join(LETTERS[int(x)] for x in rng.integers(0, 3, size=int(rng.integers(0, 5)))) if rng.random() < 0.8 else ''
        # even pages end with a line confident enough to be skipped (it keeps its incoming text), odd pages start with a line that has to be decoded:
        # the hand-over between two pages is then 'context text without LM state', the case in which the next decoded line is re-primed
        if p % 2 == 0 and l == n - 1:
            scale, t = 30.0, (t or 'ab')
        if p % 2 == 1 and l == 0:
            scale, T = 1.0, max(T, 4)
        # (round 8) the last page: a decoded line, then a confident line that carries no text, then another decoded line
        if p == 3 and n >= 3 and l == 1:
            scale, t = 30.0, ['', None][int(rng.integers(0, 2))]
        if p == 3 and n >= 3 and l == 2:
            scale, T = 1.0, max(T, 4)
        lg = rng.normal(size=(T, 4)) * scale
        lg[lg == 0] = 0.1
        reg.lines.append(L.TextLine(id='p%d-l%d' % (p, l), logits=sparse.csc_matrix(lg), characters=LETTERS, logit_coords=[0, T], transcription=t))
    pl.regions.append(reg)
    return pl


def make_decoder(case, ctx):
    D = ctx.D
    cls = case['cls']
    if cls == 'greedy':
        return lambda: ctx.pp.PageDecoder(D.GreedyDecoder(LETTERS + [D.BLANK_SYMBOL]), line_confidence_threshold=case['threshold'])
    lm = None
    if cls.startswith('lm'):
        raw = ctx.stubs.make_lstm_lm(LETTERS, case['lm_seed'], dim=8)
        lm = ctx.LMWrapper(raw, LETTERS, ctx.torch.device('cpu'))
    carry = cls.startswith('lm_carry')
    return lambda: ctx.pp.PageDecoder(D.CTCPrefixLogRawNumpyDecoder(LETTERS + [D.BLANK_SYMBOL], k=case['k'], lm=lm, lm_scale=case['lm_scale']),
                                      line_confidence_threshold=case['threshold'], carry_h_over=carry)


def result_of(pl):
    return [(l.id, l.transcription, None if l.transcription_confidence is None else float(l.transcription_confidence)) for l in pl.lines_iterator()]


def same(a, b):
    return len(a) == len(b) and all(x[0] == y[0] and x[1] == y[1] and ((x[2] is None and y[2] is None) or (x[2] is not None and y[2] is not None and abs(x[2] - y[2]) <= 1e-12)) for x, y in zip(a, b))


def check_stage_history(case, mon, ctx):
    """long-lived cropper / OCR engine / simple line detector behind one PageParser: pages with a line wider than the engine's pixel budget, with a line whose
    heights are (0, 0), with a single text row vs regular rows, fed in sequences - every page's result is that of a freshly built parser.  The OCR stub's scores
    depend on the width its batch was padded to (gain 3), so a change in batch composition shows in the transcription."""
    import torch
    L = ctx.L
    variant = case['variant']
    root = os.path.join(ctx.tmpdir, 'sh')
    if not os.path.exists(root + '/eng/ocr.json'):
        os.makedirs(root, exist_ok=True)
        ctx.stubs.make_ocr_engine_dir(root + '/eng', pipeline.CHARS, H=16, seed=21, blank_bias=1.0, wscale=1.5, width_sensitive=True)
    d = {'PAGE_PARSER': {'RUN_LAYOUT_PARSER': 'yes' if variant == 'simple_extractor' else 'no', 'RUN_LINE_CROPPER': 'yes', 'RUN_OCR': 'yes', 'RUN_DECODER': 'no'},
         'LINE_CROPPER': {'INTERP': '2', 'LINE_SCALE': '1', 'LINE_HEIGHT': '16'}, 'OCR': {'OCR_JSON': './eng/ocr.json', 'USE_CPU': 'yes'}}
    if variant == 'simple_extractor':
        d['LAYOUT_PARSER_1'] = {'METHOD': 'REGION_WHOLE_PAGE'}
        d['LAYOUT_PARSER_2'] = {'METHOD': 'LINES_SIMPLE_THRESHOLD', 'ADAPTIVE_THRESHOLD': '21', 'BLOCK_SIZE': '11', 'MINIMUM_LENGTH': '50', 'IGNORED_BORDER_PIXELS': '5'}
    cfg = configparser.ConfigParser()
    cfg.read_dict(d)
    rng = np.random.default_rng(case['pool_seed'])
    pages = []
    if variant == 'given_lines':
        for kind in ('zero_height_first', 'over_long_line', 'ordinary', 'ordinary_wide'):
            W = 4300 if kind == 'over_long_line' else (1700 if kind == 'ordinary_wide' else 900)
            img = rng.integers(1, 255, size=(760, W, 3), dtype=np.uint8)
            lines = []
            for k in range(int(rng.integers(2, 5))):
                y = 60.0 + 80 * k
                x1 = float(rng.integers(300, W - 40)) if not (kind == 'over_long_line' and k == 1) else float(W - 30)
                lines.append(([[20.0, y], [x1, y + float(rng.integers(-3, 4))]], [float(rng.integers(10, 18)), float(rng.integers(3, 8))]))
            if kind == 'zero_height_first':
                lines[0] = (lines[0][0], [0.0, 0.0])
            if kind == 'over_long_line':
                lines[1] = (lines[1][0], [7.0, 3.0])           # small script on a wide page: its crop (about 6800 px) exceeds the engine's 3840-px budget
            if kind in ('ordinary', 'ordinary_wide'):
                lines += [([[20.0, 60.0 + 80 * (len(lines) + j)], [float(rng.integers(200, 800)), 60.0 + 80 * (len(lines) + j)]], [14.0, 5.0]) for j in range(4)][:max(0, 8 - len(lines))]
            pages.append((kind, img, lines))
    else:
        for kind in ('regular_rows', 'single_row', 'regular_rows_other_spacing', 'single_row'):
            img = np.full((420, 640, 3), 255, np.uint8)
            rows = [60] if kind == 'single_row' else list(range(50, 380, 60 if kind == 'regular_rows' else 85))
            for y in rows:
                x = 40
                while x < 560:
                    wl = int(rng.integers(8, 30))
                    img[y:y + 16, x:x + wl] = 0
                    if rng.random() < 0.35:
                        img[y + 16:y + 24, x:x + wl // 2 + 1] = 0            # a descender: a second, lower edge
                    x += wl + int(rng.integers(3, 9))
            pages.append((kind, img, None))

    def fresh():
        with contextlib.redirect_stdout(io.StringIO()), contextlib.redirect_stderr(io.StringIO()):
            return ctx.pp.PageParser(cfg, device=torch.device('cpu'), config_path=root)

    def run(parser, p):
        kind, img, lines = pages[p]
        pl = L.PageLayout(id='p%d' % p, page_size=img.shape[:2])
        if lines is not None:
            from pero_ocr.layout_engines import layout_helpers as hlp
            reg = L.RegionLayout('r1', np.array([[0.0, 0.0], [img.shape[1], 0.0], [img.shape[1], img.shape[0]], [0.0, img.shape[0]]]))
            for k, (b, h) in enumerate(lines):
                b = np.array(b)
                reg.lines.append(L.TextLine(id='r1-l%03d' % k, baseline=b, heights=list(h), polygon=hlp.baseline_to_textline(b, [max(1.0, h[0]), max(1.0, h[1])])))
            pl.regions.append(reg)
        try:
            with contextlib.redirect_stdout(io.StringIO()):
                pl = parser.process_page(img.copy(), pl)
        except Exception as e:
            return 'EXCEPTION %s: %s' % (type(e).__name__, str(e)[:120])
        return [(l.id, np.round(np.asarray(l.baseline, dtype=np.float64), 3).tolist(), None if l.crop is None else list(l.crop.shape), l.transcription) for l in pl.lines_iterator()]
    ref = [run(fresh(), p) for p in range(4)]
    if any(isinstance(r, str) for r in ref) or not any(ref):
        mon.inconclusive_because('stage-history leg: a reference run raised or found nothing: %r' % [r if isinstance(r, str) else len(r) for r in ref])
        return
    for seq in case['sequences']:
        parser = fresh()
        mon.count('histories')
        for pos, p in enumerate(seq):
            got = run(parser, p)
            mon.count('stage_history_pages')
            mon.count('page_results_compared')
            if pos > 0:
                mon.count('pages_after_other_page')
            if got != ref[p]:
                first = next((k for k, (x, y) in enumerate(zip(got, ref[p])) if x != y), None) if not isinstance(got, str) else None
                mon.violation('page-result-independent-of-history', {'configuration': 'PageParser(%s + cropper + OCR whose scores depend on the padded batch width)' % variant,
                              'history': [pages[q][0] for q in seq[:pos + 1]], 'page': pages[p][0], 'lines_after_history': got if isinstance(got, str) else len(got), 'lines_alone': len(ref[p]),
                              'first_difference': None if first is None else {'after_history': got[first], 'alone': ref[p][first]}}, mechanism='stage-history:' + variant)
                break
    mon.mark_nontrivial()


def check(case, mon, ctx):
    if case['cls'] == 'stage_history':
        return check_stage_history(case, mon, ctx)
    if case['cls'] == 'page_parser':
        return check_page_parser(case, mon, ctx)
    if case['cls'] == 'layout_history':
        return check_layout_history(case, mon, ctx)
    L = ctx.L
    mk = make_decoder(case, ctx)
    pages = [make_page(L, case['pool_seed'], p) for p in range(4)]
    ref = []
    for p in range(4):
        pl = copy.deepcopy(pages[p])
        mk().process_page(pl)
        ref.append(result_of(pl))
    nontriv = False
    seqs_all = list(case['sequences'])
    if case['cls'].startswith('lm_carry'):
        seqs_all.append([0, 1, 2, 3] * 14)          # (round 8) a long run: far more than a hundred lines through one decoder
        mon.count('histories_of_more_than_100_lines')
    for seq in seqs_all:
        inst = mk()
        mon.count('histories')
        seen = set()
        for pos, p in enumerate(seq):
            pl = copy.deepcopy(pages[p])
            other = [l for l in copy.deepcopy(pages[(p + 1) % 4]).lines_iterator()]
            if other and (pos + len(seq)) % 3 == 1:
                # a single line of another page is decoded directly on the instance before this page arrives
                try:
                    inst.decode_line(other[0])
                    mon.count('direct_decode_line_calls_between_pages')
                except Exception:
                    pass
            elif len(other) >= 2 and (pos + len(seq)) % 3 == 2:
                # the previous page was interrupted after its first line (Ctrl-C, a worker being stopped): the instance stays in use
                class Interrupted:
                    id = 'interrupted'

                    def lines_iterator(self):
                        yield other[0]
                        raise KeyboardInterrupt()
                try:
                    inst.process_page(Interrupted())
                except KeyboardInterrupt:
                    mon.count('pages_after_an_interrupted_page')
            del ctx.events[:]
            inst.process_page(pl)
            got = result_of(pl)
            mon.count('page_results_compared')
            if pos > 0 and seq[pos - 1] != p:
                mon.count('pages_after_other_page')
                nontriv = True
            if p in seen:
                mon.count('repeated_pages')
            seen.add(p)
            ev = list(ctx.events)
            # invariant at the hook: the LM state carried into a line is the state after the previous line's text - after a line that was kept without being decoded,
            # the state that an EARLIER line left must not be carried on
            if case['cls'].startswith('lm_carry'):
                for e0, e1 in zip(ev, ev[1:]):
                    if e0.get('kept_without_decoding') and not e0['last_h_is_none']:
                        mon.count('kept_lines_between_decoded_lines')
                        if not e1['last_h_is_none'] and e1['state_id'] == e0['state_id']:
                            mon.violation('page-result-independent-of-history', {'configuration': case['cls'], 'threshold': case['threshold'], 'page': p, 'line': e1['line'],
                                          'note': 'the line before was kept without decoding (text %r); the LM state left by the line before THAT one was carried into this line' % (e0.get('last_line_after'),)},
                                          mechanism='stale-lm-state-carried-over-a-kept-line')
            for e in ev:
                if case['cls'].startswith('lm_carry'):
                    mon.count('carry_lines_decoded')
                    if e['last_h_is_none'] and e['last_line']:
                        mon.count('lines_reprimed_from_last_line')
            mon.count('confident_lines_skipped', inst.lines_examined - inst.lines_decoded if pos == len(seq) - 1 else 0)
            if not same(got, ref[p]):
                first = next((k for k, (x, y) in enumerate(zip(got, ref[p])) if x != y), None)
                carried = ev[first] if first is not None and first < len(ev) else None
                mon.violation('page-result-independent-of-history', {'configuration': case['cls'], 'threshold': case['threshold'], 'history': seq[:pos + 1], 'page': p,
                              'first_differing_line': first, 'got': got[first] if first is not None else None, 'alone': ref[p][first] if first is not None else None,
                              'state_carried_into_that_line': carried})
                break
    if case['cls'].startswith('lm_carry'):
        # (round 8) a decoder that has already decoded 97-99 lines (single lines decoded directly, as above) receives the longest page: its hundredth line falls inside the page
        q = max(range(4), key=lambda k: len(ref[k]))
        some = [l for pg in pages for l in pg.lines_iterator()]
        for target in (97, 98, 99, 197, 198):
            if len(ref[q]) < 3:
                break
            inst = mk()
            guard = 0
            while inst.lines_decoded < target and guard < 1500:
                try:
                    inst.decode_line(copy.deepcopy(some[guard % len(some)]))
                except Exception:
                    pass
                guard += 1
            if inst.lines_decoded != target:
                continue
            pl = copy.deepcopy(pages[q])
            del ctx.events[:]
            inst.process_page(pl)
            mon.count('pages_decoded_across_the_hundredth_line_of_a_decoder')
            got = result_of(pl)
            if not same(got, ref[q]):
                first = next((k for k, (x, y) in enumerate(zip(got, ref[q])) if x != y), None)
                mon.violation('page-result-independent-of-history', {'configuration': case['cls'], 'threshold': case['threshold'], 'history': '%d lines decoded one by one before the page' % target, 'page': q,
                              'first_differing_line': first, 'got': got[first] if first is not None else None, 'alone': ref[q][first] if first is not None else None})
                break
    if nontriv:
        mon.mark_nontrivial()


def page_parser_config(ctx, case):
    root = os.path.join(ctx.tmpdir, 'pp_%d' % (case['lm_seed'] % 100000))
    if not os.path.exists(root):
        pipeline.make_batch(root, ['q0', 'q1', 'q2', 'q3'], seed=case['pool_seed'] % 1000, n_lines=3,
                            decoder=dict(carry=True, threshold=case['threshold'], beam=case['k'], lm_scale=case['lm_scale']), lm_seed=case['lm_seed'] % 1000)
    cfg = configparser.ConfigParser()
    cfg.read(root + '/config.ini')
    return root, cfg


def check_page_parser(case, mon, ctx):
    import cv2
    L = ctx.L
    root, cfg = page_parser_config(ctx, case)
    ids = ['q0', 'q1', 'q2', 'q3']
    imgs = [cv2.imread('%s/img/%s.png' % (root, i), 1) for i in ids]

    def fresh():
        with contextlib.redirect_stdout(io.StringIO()), contextlib.redirect_stderr(io.StringIO()):
            return ctx.pp.PageParser(cfg, device=ctx.torch.device('cpu'), config_path=root)

    def run(parser, p):
        pl = L.PageLayout(file='%s/xml/%s.xml' % (root, ids[p]))
        with contextlib.redirect_stdout(io.StringIO()):
            pl = parser.process_page(imgs[p].copy(), pl)
        return result_of(pl)
    ref = [run(fresh(), p) for p in range(4)]
    for seq in case['sequences']:
        parser = fresh()
        mon.count('histories')
        for pos, p in enumerate(seq):
            del ctx.events[:]
            got = run(parser, p)
            mon.count('page_parser_pages')
            mon.count('page_results_compared')
            if pos > 0 and seq[pos - 1] != p:
                mon.count('pages_after_other_page')
            if not same(got, ref[p]):
                first = next((k for k, (x, y) in enumerate(zip(got, ref[p])) if x != y), None)
                ev = list(ctx.events)
                mon.violation('page-result-independent-of-history', {'configuration': 'PageParser(cropper + OCR + LM decoder with carry-over)', 'history': seq[:pos + 1], 'page': p,
                              'got': got[first] if first is not None else None, 'alone': ref[p][first] if first is not None else None,
                              'state_carried_into_that_line': ev[first] if first is not None and first < len(ev) else None})
                break
    mon.mark_nontrivial()


# ---------------------------------------------------------------------------------------------------------------------------
class Kill(BaseException):
    pass


def folder_vs_alone(mon, ctx):
    """the batch script on a folder of pages whose names are prefixes of one another (and, with --skipp-missing-xml, on a folder that also holds
    images without PAGE XML) vs the same script on a folder holding one page only: every page's outputs must be the same"""
    from pero_ocr.core.layout import PageLayout
    PF = pipeline.load_parse_folder(ctx.repo)
    n = 1 if ctx.tier == 'quick' else 6
    for k in range(n):
        for variant in ('prefix_names', 'missing_xml'):
            root = os.path.join(ctx.tmpdir, 'fva%d_%s' % (k, variant))
            ids = ['page', 'page-1', 'scan', 'scan (2)', 'a', 'a.b'] if variant == 'prefix_names' else ['m1', 'm2', 'm3', 'm4']
            pipeline.make_batch(root, ids, seed=ctx.seed * 10 + k, n_lines=2)
            extra_args = []
            if variant == 'missing_xml':
                # images without input XML, sorting before and between the pages that have one
                import cv2
                rng = np.random.default_rng([ctx.seed, k, 5])
                for name in ('0cover', 'm2a', 'm35'):
                    cv2.imwrite('%s/img/%s.png' % (root, name), rng.integers(1, 255, size=(300, 400, 3), dtype=np.uint8))
                extra_args = ['--skipp-missing-xml']
            kinds = ['xml', 'logits']
            r = pipeline.run_main(PF, pipeline.argv_for(root, root + '/all', kinds, skip=False, extra=extra_args))
            whole = pipeline.snapshot(root + '/all')
            mon.cur_desc = {'leg': 'folder vs single page', 'variant': variant, 'ids': ids}
            if r != 'ok' or len(whole) < 2 * len(ids):
                mon.violation('harness:exception', {'note': 'folder run did not behave as planned', 'status': r, 'files': sorted(whole)[:6]})
                continue
            for pid in ids:
                one = os.path.join(root, 'one_' + pid.replace(' ', '_'))
                os.makedirs(one + '/img'); os.makedirs(one + '/xml')
                shutil.copy('%s/img/%s.png' % (root, pid), one + '/img/'); shutil.copy('%s/xml/%s.xml' % (root, pid), one + '/xml/')
                argv = pipeline.argv_for(root, one + '/out', kinds, skip=False)
                argv[argv.index('-i') + 1] = one + '/img'; argv[argv.index('-x') + 1] = one + '/xml'
                r1 = pipeline.run_main(PF, argv)
                alone = pipeline.snapshot(one + '/out')
                mon.count('pages_in_a_folder_vs_alone')
                mon.count('extra_evaluations')
                diff = [f for f in alone if whole.get(f) != alone[f]]
                if r1 != 'ok' or not alone or diff:
                    texts = {}
                    for f in diff:
                        if f.startswith('xml/') and f in whole:
                            texts[f] = {'in_the_folder': [l.transcription for l in PageLayout(file=root + '/all/' + f).lines_iterator()],
                                        'alone': [l.transcription for l in PageLayout(file=one + '/out/' + f).lines_iterator()]}
                    mon.violation('page-result-independent-of-history', {'configuration': 'parse_folder on a folder (%s) vs on the page alone' % variant, 'page': pid, 'other_pages': [x for x in ids if x != pid],
                                  'status': r1, 'differing_files': diff[:4], 'transcriptions': texts}, mechanism='folder-vs-alone')
            shutil.rmtree(root, ignore_errors=True)


def extra(mon, ctx):
    if ctx.shard == 3 % ctx.nshards:
        folder_vs_alone(mon, ctx)
    if ctx.shard == 0:
        process_schedules(mon, ctx)
    if ctx.shard == 1 % ctx.nshards:
        resume_vs_full(mon, ctx)
    if ctx.shard == 2 % ctx.nshards:
        adaptive_downsample_probe(mon, ctx)


def process_schedules(mon, ctx):
    """model-free stages (line cropper) as real processes: --process-count 1 vs 3 must give identical output trees"""
    n = 1 if ctx.tier == 'quick' else 5
    env = dict(os.environ)
    for k in range(n):
        root = os.path.join(ctx.tmpdir, 'sched%d' % k)
        ids = ['s%d' % j for j in range(6)]
        pipeline.make_batch(root, ids, seed=ctx.seed * 10 + k, n_lines=3, ocr=False)
        procs = []
        for pc in (1, 3, 8):
            argv = pipeline.argv_for(root, '%s/out%d' % (root, pc), ['xml', 'line', 'render'], skip=False, extra=['--process-count', str(pc)])
            argv[0] = os.path.join(ctx.repo, 'user_scripts', 'parse_folder.py')
            procs.append(subprocess.Popen([sys.executable] + argv, stdout=subprocess.DEVNULL, stderr=subprocess.DEVNULL, env=env))
        for p in procs:
            try:
                p.wait(timeout=600)
            except subprocess.TimeoutExpired:
                p.kill()
                mon.inconclusive_because('parse_folder subprocess did not finish within 600 s')
                return
        a = pipeline.snapshot(root + '/out1')
        mon.cur_desc = {'leg': 'process-count 1 vs 3 vs 8 (more workers than the 6 pages)', 'folder_seed': ctx.seed * 10 + k}
        if len(a) < 6 * 2:
            mon.violation('harness:exception', {'note': 'sequential parse_folder run produced too few files', 'files': sorted(a)[:5], 'returncodes': [p.returncode for p in procs]})
        else:
            for pc in (3, 8):
                b = pipeline.snapshot(root + '/out%d' % pc)
                mon.count('process_pairs_compared')
                mon.count('extra_evaluations')
                if a != b:
                    diff = sorted(set(a) ^ set(b)) + [k_ for k_ in a if k_ in b and a[k_] != b[k_]]
                    mon.violation('parallel-run-equals-sequential-run', {'process_count': pc, 'pages': 6, 'differing_files': diff[:6], 'n_sequential': len(a), 'n_parallel': len(b)})
        shutil.rmtree(root, ignore_errors=True)


def resume_vs_full(mon, ctx):
    """LM decoder with carry-over through the real batch script: an uninterrupted run vs a run killed after the first page and resumed"""
    from pero_ocr.core.layout import PageLayout
    PF = pipeline.load_parse_folder(ctx.repo)
    n = 2 if ctx.tier == 'quick' else 12
    for k in range(n):
        root = os.path.join(ctx.tmpdir, 'resume%d' % k)
        ids = ['a', 'b', 'c'] if k % 2 else ['p.1', 'p', 'q']      # also ids of which one is a dot-prefix of another (processed in sorted order: p.1, p, q)
        pipeline.make_batch(root, ids, seed=ctx.seed * 10 + k, n_lines=3, decoder=dict(carry=True, threshold=None, beam=4, lm_scale=1.0), lm_seed=ctx.seed * 10 + k)
        kinds = ['xml', 'logits']
        r = pipeline.run_main(PF, pipeline.argv_for(root, root + '/full', kinds))
        full = pipeline.snapshot(root + '/full')
        # killed run: the kill happens instead of the first write of the second page
        state = {'n': 0, 'kill_at': len(kinds)}
        orig = PageLayout.to_pagexml

        def killer(self, *a, **kw):
            if state['kill_at'] is not None and state['n'] >= state['kill_at'] and 'resumed' in a[0]:
                raise Kill()
            state['n'] += 1 if 'resumed' in a[0] else 0
            return orig(self, *a, **kw)
        PageLayout.to_pagexml = killer
        try:
            state['n'], state['kill_at'] = 0, 1
            r1 = pipeline.run_main(PF, pipeline.argv_for(root, root + '/resumed', kinds), crash_exc=Kill)
            state['kill_at'] = None
            r2 = pipeline.run_main(PF, pipeline.argv_for(root, root + '/resumed', kinds))
        finally:
            PageLayout.to_pagexml = orig
        res = pipeline.snapshot(root + '/resumed')
        mon.count('resume_runs_compared')
        mon.count('extra_evaluations')
        mon.cur_desc = {'leg': 'full run vs killed-and-resumed run', 'folder_seed': ctx.seed * 10 + k, 'statuses': [r, r1, r2]}
        if r != 'ok' or r1 != 'crash' or not full:
            mon.violation('harness:exception', {'note': 'resume leg did not run as planned', 'statuses': [r, r1, r2], 'files': sorted(full)[:4]})
        elif full != res:
            diff = [f for f in sorted(set(full) | set(res)) if full.get(f) != res.get(f)]
            texts = {}
            for f in diff:
                if f.startswith('xml/') and f in full and f in res:
                    texts[f] = {'full': [l.transcription for l in PageLayout(file=root + '/full/' + f).lines_iterator()],
                                'resumed': [l.transcription for l in PageLayout(file=root + '/resumed/' + f).lines_iterator()]}
            mon.violation('resumed-run-equals-uninterrupted-run', {'differing_files': diff[:6], 'transcriptions': texts})
        shutil.rmtree(root, ignore_errors=True)


def adaptive_downsample_probe(mon, ctx):
    """layout detection with adaptive down-sampling on two pages of different text size (stub ParseNet)"""
    import torch
    from pero_ocr.layout_engines.cnn_layout_engine import LayoutEngine

    class StubParse(torch.nn.Module):
        def __init__(self):
            super().__init__()
            self.k = torch.nn.Conv2d(1, 1, kernel_size=(63, 1), padding=(31, 0), bias=False)
            with torch.no_grad():
                self.k.weight.fill_(1.0)

        def forward(self, x):
            n, c, h, w = x.shape
            z = torch.zeros((n, 1, h, w), dtype=x.dtype)
            band = (x[:, 0:1] > 0.5).to(x.dtype)
            tot = self.k(band)
            return torch.cat([tot * 0.75, tot * 0.25, x[:, 2:3], z, z], dim=1), z
    path = os.path.join(ctx.tmpdir, 'parsenet.pt')
    torch.jit.save(torch.jit.script(StubParse().eval()), path + '.cpu')

    def page(text_h, n=6, H=1200, W=900):
        img = np.zeros((H, W, 3), np.uint8)
        for i in range(n):
            y = 100 + i * int(text_h * 2.2)
            if y + text_h > H:
                break
            asc = int(text_h * 0.75)
            img[y - asc:y + text_h - asc, 80:800, 0] = 255
            t = max(2, text_h // 8)
            img[y - t:y + t, 80:800, 2] = 255
        return img

    def mk():
        with contextlib.redirect_stdout(io.StringIO()):
            return LayoutEngine(path, torch.device('cpu'), downsample=4, adaptive_downsample=True, detection_threshold=0.2)

    def run(eng, img):
        with contextlib.redirect_stdout(io.StringIO()):
            p, b, h, t = eng.detect(img.copy(), rot=0)
        return [(np.round(bb[0]).tolist(), np.round(bb[-1]).tolist(), np.round(hh, 1).tolist()) for bb, hh in zip(b, h)]
    A, B = page(40), page(110, n=4)
    e = mk(); alone = run(e, A); ds_alone = float(e.parsenet.last_downsample)
    e = mk(); run(e, B); ds_b = float(e.parsenet.last_downsample); after = run(e, A)
    twice_e = mk(); t1 = run(twice_e, A); t2 = run(twice_e, A)
    mon.count('adaptive_downsample_probes')
    mon.count('extra_evaluations')
    mon.cur_desc = {'leg': 'LayoutEngine.detect with adaptive_downsample on pages with 40 px and 110 px text'}
    if alone != after:
        carried = abs(ds_b - 4.0) > 1e-9
        mon.violation('page-result-independent-of-history', {'stage': 'layout detection', 'downsample_when_alone': ds_alone, 'downsample_left_by_previous_page': ds_b,
                      'lines_alone': len(alone), 'lines_after_other_page': len(after), 'first_alone': alone[:1], 'first_after': after[:1]},
                      mechanism=KNOWN_DS if carried else None)
    if t1 != t2:
        mon.violation('same-page-twice-gives-identical-output', {'stage': 'layout detection', 'first': t1[:1], 'second': t2[:1]},
                      mechanism=KNOWN_DS if abs(float(twice_e.parsenet.last_downsample) - 4.0) > 1e-9 else None)


# ---------------------------------------------------------------------------------------------------------------------------
def check_layout_history(case, mon, ctx):
    """a full PageParser with the CNN layout stage (stub ParseNet), optional line filter (stub orientation net) and region sorter,
    line cropper and stub OCR, fed sequences of page images: lines, geometry, transcriptions and confidences of a page must equal
    those from a freshly built parser"""
    import random
    import torch
    L = ctx.L
    o = case['layout_options']
    root = os.path.join(ctx.tmpdir, 'lh')
    if not os.path.exists(root + '/parsenet.pt.cpu'):
        os.makedirs(root, exist_ok=True)
        ctx.stubs.make_parsenet(root + '/parsenet.pt', horizontal_runs_only=True)
        ctx.stubs.make_ocr_engine_dir(root + '/eng', pipeline.CHARS, H=16, seed=5, blank_bias=1.0, wscale=1.5)

        class Orient(torch.nn.Module):
            def forward(self, x):
                return x[:, 0:2] * 2.0 - 0.3
        torch.jit.save(torch.jit.script(Orient().eval()), root + '/orient.pt.cpu')
    yn = lambda b: 'yes' if b else 'no'
    d = {'PAGE_PARSER': {'RUN_LAYOUT_PARSER': 'yes', 'RUN_LINE_CROPPER': 'yes', 'RUN_OCR': 'yes', 'RUN_DECODER': 'no'},
         'LAYOUT_PARSER_1': {'METHOD': 'LAYOUT_CNN', 'MODEL_PATH': 'parsenet.pt', 'USE_CPU': 'yes', 'DETECT_REGIONS': 'yes', 'DETECT_LINES': 'yes',
                             'DETECT_STRAIGHT_LINES_IN_REGIONS': yn(o['straight_lines']), 'MERGE_LINES': 'no', 'MULTI_ORIENTATION': yn(o['multi_orientation']),
                             'ADJUST_HEIGHTS': yn(o['adjust_heights']), 'ADJUST_BASELINES': 'no', 'DOWNSAMPLE': '2', 'ADAPTIVE_DOWNSAMPLE': 'no', 'DETECTION_THRESHOLD': '0.2', 'MAX_MEGAPIXELS': '0.05' if o.get('low_megapixel_limit') else '5'},
         'LINE_CROPPER': {'INTERP': '2', 'LINE_SCALE': '1', 'LINE_HEIGHT': '16'}, 'OCR': {'OCR_JSON': './eng/ocr.json', 'USE_CPU': 'yes'}}
    if o.get('given_lines'):
        # lines come with the page (input PAGE XML); the only layout stage is the direction filter with its orientation network
        d.pop('LAYOUT_PARSER_1')
        d['LAYOUT_PARSER_1'] = {'METHOD': 'LINE_FILTER', 'MODEL_PATH': 'orient.pt', 'USE_CPU': 'yes', 'FILTER_DIRECTIONS': 'yes', 'FILTER_INCOMPLETE_PAGES': 'no',
                                'FILTER_PAGES_WITH_SHORT_LINES': 'no', 'LENGTH_THRESHOLD': '10'}
    n = 2
    if o['line_filter'] and not o.get('given_lines'):
        d['LAYOUT_PARSER_%d' % n] = {'METHOD': 'LINE_FILTER', 'MODEL_PATH': 'orient.pt', 'USE_CPU': 'yes', 'FILTER_DIRECTIONS': 'yes', 'FILTER_INCOMPLETE_PAGES': 'no',
                                     'FILTER_PAGES_WITH_SHORT_LINES': 'no', 'LENGTH_THRESHOLD': '10'}
        n += 1
    if o['sorter'] and not o.get('given_lines'):
        d['LAYOUT_PARSER_%d' % n] = {'METHOD': 'REGION_SORTER_SMART'}
    cfg = configparser.ConfigParser()
    cfg.read_dict(d)
    rng = np.random.default_rng(case['pool_seed'])
    pages = []
    for kind in ('upright', 'vertical_only', 'mixed', 'empty'):
        hl, vl = [], []
        if kind in ('upright', 'mixed'):
            hl = [(int(y), 60, int(rng.integers(300, 540))) for y in range(90, 500, int(rng.integers(90, 140)))][:int(rng.integers(1, 4))]
        if kind in ('vertical_only', 'mixed'):
            vl = [(int(x), 80, int(rng.integers(300, 520))) for x in ([620, 700] if kind == 'mixed' else [200, 400, 620])][:int(rng.integers(1, 4))]
        # with the horizontal-runs stub the upright pass sees no line in a vertical stroke (4 px wide), the rotated passes do
        Hh, Ww = 600, 800
        if kind == 'upright' and o.get('low_megapixel_limit'):
            Hh, Ww = 300, 400        # 0.12 Mpx: under the limit of 2*2*0.05 Mpx, the other pages (0.48 Mpx) are over it
            hl = [(y // 2, x0 // 2, x1 // 2) for y, x0, x1 in hl]
            mon.count('pages_under_a_limit_that_others_exceed')
        img = ctx.stubs.stroke_image(hl, vl, H=Hh, W=Ww, asc=int(rng.integers(8, 18)), desc=int(rng.integers(3, 8)), vthick=2)
        img[:, :, :] = np.maximum(img, (rng.integers(0, 20, size=(Hh, Ww, 1))).astype(np.uint8) * (img[:, :, 2:3] == 0))   # faint texture, same in all channels
        pages.append((kind, img))
    if not o.get('given_lines') and not o.get('low_megapixel_limit'):
        # (round 7) a slightly smaller scan (580 x 780) whose network input is padded to the same size as that of the 600 x 800 pages; its bottom line ends at
        # the right page edge, where the first page has ink that continues beyond x = 780
        y0 = 550
        kind0, img0 = pages[0]
        img0 = img0.copy()
        img0[y0 - 2:y0 + 2, 560:800, 2] = 255
        img0[y0 - 8:y0 + 8, 560:800, 0] = int(255 * 12 / 40)
        img0[y0 - 8:y0 + 8, 560:800, 1] = int(255 * 4 / 20)
        pages[0] = (kind0, img0)
        small = ctx.stubs.stroke_image([(120, 60, 500), (y0, 300, 780)], [], H=580, W=780, asc=12, desc=4, vthick=2)
        pages.append(('smaller_scan', small))
        case = dict(case, sequences=list(case['sequences']) + [[0, 4], [4, 0, 4, 1]])
        mon.count('layout_histories_with_two_scan_sizes_sharing_a_padded_size')

    given = None
    if o.get('given_lines'):
        given = []
        pages = []
        for kind in ('upright', 'upside_down_only', 'steep_and_upright', 'mixed'):
            img = np.zeros((600, 800, 3), np.uint8)
            img[:, :, 0] = int(rng.integers(0, 256)); img[:, :, 1] = int(rng.integers(0, 256)); img[:, :, 2] = rng.integers(0, 256, size=(600, 800))
            img[:, 400:, 0] = int(rng.integers(0, 256)); img[300:, :, 1] = int(rng.integers(0, 256))      # the orientation map differs between page areas and between pages
            lines = []
            if kind in ('upright', 'steep_and_upright', 'mixed'):
                lines += [('h', [[60.0, y], [500.0, y + 4.0]]) for y in (100.0, 260.0)]
            if kind in ('upside_down_only', 'mixed'):
                lines += [('u', [[700.0, y], [200.0, y - 3.0]]) for y in (180.0, 420.0, 520.0)]
            if kind in ('steep_and_upright', 'mixed'):
                lines += [('v', [[x, 80.0], [x + 5.0, 500.0]]) for x in (620.0, 720.0)]
            given.append(lines)
            pages.append((kind, img))

    def fresh():
        with contextlib.redirect_stdout(io.StringIO()), contextlib.redirect_stderr(io.StringIO()):
            return ctx.pp.PageParser(cfg, device=torch.device('cpu'), config_path=root)

    def close(parser):
        for lp in parser.layout_parsers:
            if hasattr(lp, 'pool'):
                lp.pool.close()

    def run(parser, p):
        random.seed(1234 + p); np.random.seed(1234 + p)       # the engine orders lines with random jitter: same jitter for the reference and the history run
        pl = L.PageLayout(id='p%d' % p, page_size=tuple(pages[p][1].shape[:2]))
        if given is not None:
            from pero_ocr.layout_engines import layout_helpers as hlp
            reg = L.RegionLayout('r1', np.array([[0.0, 0.0], [800.0, 0.0], [800.0, 600.0], [0.0, 600.0]]))
            for k, (kind_, b) in enumerate(given[p]):
                b = np.array(b)
                reg.lines.append(L.TextLine(id='r1-l%03d' % k, baseline=b, heights=[12.0, 4.0], polygon=hlp.baseline_to_textline(b, [12.0, 4.0])))
            pl.regions.append(reg)
            mon.count('given_line_pages')
        try:
            with contextlib.redirect_stdout(io.StringIO()):
                pl = parser.process_page(pages[p][1].copy(), pl)
        except Exception as e:
            return 'EXCEPTION %s: %s' % (type(e).__name__, str(e)[:120])
        return [(r.id, l.id, np.round(np.asarray(l.baseline, dtype=np.float64), 3).tolist(), [round(float(h), 3) for h in l.heights], l.transcription,
                 None if l.transcription_confidence is None else round(float(l.transcription_confidence), 9)) for r in pl.regions for l in r.lines]
    ref = []
    for p in range(len(pages)):
        ps = fresh(); ref.append(run(ps, p)); close(ps)
    if given is None and (isinstance(ref[0], str) or not ref[0]):
        mon.inconclusive_because('layout-history leg: the reference run of the upright page found no lines or raised: %r' % (ref[0] if isinstance(ref[0], str) else 'no lines'))
        return
    if given is None and not isinstance(ref[1], str) and all(abs(l[2][0][1] - l[2][-1][1]) > abs(l[2][0][0] - l[2][-1][0]) for l in ref[1]):
        mon.count('layout_pages_without_upright_lines')
    for seq in case['sequences']:
        parser = fresh()
        mon.count('histories')
        for pos, p in enumerate(seq):
            got = run(parser, p)
            mon.count('layout_history_pages')
            mon.count('page_results_compared')
            if pos > 0:
                mon.count('pages_after_other_page')
            if got != ref[p]:
                first = next((k for k, (x, y) in enumerate(zip(got, ref[p])) if x != y), None) if not isinstance(got, str) and not isinstance(ref[p], str) else None
                mon.violation('page-result-independent-of-history', {'configuration': 'PageParser(layout CNN + cropper + OCR)', 'layout_options': o, 'history': [pages[q][0] for q in seq[:pos + 1]],
                              'page': pages[p][0], 'lines_after_history': len(got) if not isinstance(got, str) else got, 'lines_alone': len(ref[p]) if not isinstance(ref[p], str) else ref[p],
                              'first_difference': None if first is None else {'after_history': got[first], 'alone': ref[p][first]}})
                break
        close(parser)
    # (round 8) fault injection: the orientation network of the direction filter runs out of memory once, on an earlier page; whatever becomes of that page,
    # the later pages are analysed as by a fresh parser (same results, and the filter still works at its configured resolution)
    probe = fresh()
    filters = [lp for lp in probe.layout_parsers if isinstance(lp, ctx.pp.LineFilter)]
    if filters:
        eng_f = filters[0].engine
        configured = eng_f.downsample
        real_get_maps = eng_f.tiltnet.get_maps
        state = {'armed': True}

        def failing(image, downsample):
            if state['armed']:
                state['armed'] = False
                raise RuntimeError('CUDA out of memory. Tried to allocate 2.00 GiB (injected)')
            return real_get_maps(image, downsample)
        eng_f.tiltnet.get_maps = failing
        run(probe, 2 % len(pages))
        eng_f.tiltnet.get_maps = real_get_maps
        mon.count('histories_with_an_injected_out_of_memory_fault')
        if eng_f.downsample != configured:
            mon.violation('page-result-independent-of-history', {'configuration': 'PageParser with LINE_FILTER', 'note': 'after a page on which the orientation network ran out of memory once, the filter works '
                          'at another resolution for every later page', 'configured_downsample': configured, 'downsample_now': eng_f.downsample}, mechanism='stage-configuration-changed-by-an-earlier-page')
        for p in (0, 1):
            got = run(probe, p)
            mon.count('page_results_compared')
            if got != ref[p]:
                mon.violation('page-result-independent-of-history', {'configuration': 'PageParser with LINE_FILTER', 'history': ['page with one injected out-of-memory fault', pages[p][0]], 'page': pages[p][0],
                              'lines_after_history': len(got) if not isinstance(got, str) else got, 'lines_alone': len(ref[p]) if not isinstance(ref[p], str) else ref[p]})
                break
    close(probe)
    mon.mark_nontrivial()
