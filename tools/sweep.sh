#!/bin/bash
# tools/sweep.sh <tier> <seeds...> : run every check for the given seeds; output to a scratch dir (evidence in /verif is not touched)
tier=$1; shift
out=$(mktemp -d /tmp/sweep_XXXX)
cd "$(dirname "$0")/.."
for s in "$@"; do
  for p in C01 C02 C03 C04 C05 C06 C07 C08 C09 C10 C11 C12 C13 C14 C15 C16 C17 C18 C19 C20; do
    t0=$(date +%s)
    VERIF_SEED=$s VERIF_OUT=$out ./check $p $tier > $out/$p.$s.log 2>&1; rc=$?
    echo "$p seed=$s tier=$tier exit=$rc $(( $(date +%s) - t0 ))s $(grep -c '^VIOLATION' $out/$p.$s.log) violations $(grep -c '^KNOWN' $out/$p.$s.log) known"
    [ $rc -ne 0 ] && grep -A1 "^VIOLATION\|^INCONCLUSIVE" $out/$p.$s.log | head -6 | cut -c1-400
  done
done
echo "logs in $out"
