#!/venv/bin/python
"""Rewrite section 6.1 of DESIGN.md from seeded/*/meta.json."""
import json, os, re
HERE = os.path.dirname(os.path.dirname(os.path.abspath(__file__)))
rows = []
for d in sorted(os.listdir(os.path.join(HERE, 'seeded'))):
    m = json.load(open(os.path.join(HERE, 'seeded', d, 'meta.json')))
    chk = m.get('checks', {}).get(m['property'], {})
    clauses = ', '.join(chk.get('violated_clauses', [])[:3]) or '—'
    note = m.get('strengthening', '')
    rows.append('| %s | %s | %s | %s | %s |' % (d, (m.get('summary') or '').replace('|', '/').replace('\n', ' ')[:230], (m.get('needs_to_manifest') or '').replace('|', '/').replace('\n', ' ')[:200],
                                              ('**caught** by ' + ', '.join(m['caught_by'])) if m.get('caught_by') else '**missed**', (clauses + ('; ' + note if note else ''))[:260]))
text = '''## 6.1 Seeded changes and which checks catch them

Each change below was written by a fresh sub-agent that was given only the text of one property and its own scratch git
worktree of /repo under /tmp (nothing from /verif). Before keeping a change I confirmed, in a *fresh* worktree of /repo HEAD
(`tools/seed.py keep`): the demonstration exits 0 on the clean tree, the patch applies, the repository's suite still gives
217 passed / 4 failed, the demonstration exits 1 with the patch. Then the property's quick check was run against the patched
tree (`VERIF_REPO=<worktree> ./check <ID> quick`; no change is ever applied to /repo). `seeded/<id>/meta.json` records what was
run and the violated clauses. Where a change was first missed, the check was strengthened (noted in the last column and in
the meta file) and `tools/seed.py rerun` confirmed the catch; `tools/seed.py rerun` re-runs all of them.

| seed | change | needs, to manifest | result (quick tier) | clauses that fired / what was strengthened |
|---|---|---|---|---|
''' + '\n'.join(rows) + '\n'
p = os.path.join(HERE, 'DESIGN.md')
s = open(p).read()
i = s.index('## 6.1 Seeded changes')
j = s.index('## 7. Cost')
open(p, 'w').write(s[:i] + text + '\n' + s[j:])
print(len(rows), 'seeds;', sum('| **missed** |' in r for r in rows), 'missed')
