#!/venv/bin/python
"""Regenerate /verif/MANIFEST.json from the property modules' metadata (keeps it valid at all times)."""
import importlib, json, os, sys
HERE = os.path.dirname(os.path.dirname(os.path.abspath(__file__)))
sys.path[:0] = [HERE, '/repo', os.path.join(HERE, '.deps')]
props = [json.loads(l) for l in open(os.path.join(HERE, 'properties.jsonl'))]
checks, na = [], []
for p in props:
    pid = p['id']
    if not os.path.exists(os.path.join(HERE, 'vf', 'props', pid.lower() + '.py')):
        na.append({'property_id': pid, 'reason': 'check not built yet (runtime monitor designed in DESIGN.md section 3, not implemented at this commit)'})
        continue
    m = importlib.import_module('vf.props.' + pid.lower())
    checks.append({
        'property_id': pid,
        'quick_cmd': './check %s quick' % pid,
        'thorough_cmd': './check %s thorough' % pid,
        'evidence_file': 'evidence/%s.json' % pid,
        'replay_cmd_template': './check %s --replay {path}' % pid,
        'engine': 'vf',
        'level_claimed': {'category': m.LEVEL, 'text': m.LEVEL_TEXT if hasattr(m, 'LEVEL_TEXT') else
                          'Held on the executions produced: the real functions are run on seeded generated inputs of every class the quantifier names, '
                          'with an input-independent oracle observing each execution. ' + m.RULE, 'design_ref': 'DESIGN.md section 3, ' + pid},
        'level_note': '; '.join(m.ASSUMPTIONS),
        'technique': m.TECHNIQUE,
    })
man = {
    'version': 1,
    'setup_cmd': './setup.sh',
    'hooks': {'guard': 'PERO_OCR_VERIF', 'enable': 'no source hooks: ./check sets PERO_OCR_VERIF=1 and attaches wrappers/contracts to the live modules of /repo (PYTHONPATH=/repo) inside the check process only',
              'baseline_off_cmd': 'cd /repo && env -u PERO_OCR_VERIF /venv/bin/python -m pytest -q -p no:cacheprovider --timeout=900',
              'source_commits': [], 'add_only': True},
    'engines': [{'name': 'vf', 'path': 'vf/', 'serves_properties': [c['property_id'] for c in checks],
                 'kind_free_text': 'python runtime-monitoring harness: seeded workload generators, monkeypatch recorders and icontract contracts on the real pero_ocr functions, reference-model oracles, fault injection, three-valued verdicts'}],
    'checks': checks,
    'not_applicable': na,
    'notes': 'exit 0 held / 1 violation (VIOLATION line) / 2 inconclusive (INCONCLUSIVE line). VERIF_SEED selects the workload; VERIF_REPO (default /repo) selects the tree.',
}
json.dump(man, open(os.path.join(HERE, 'MANIFEST.json'), 'w'), indent=1)
print('checks:', [c['property_id'] for c in checks], 'not_applicable:', [n['property_id'] for n in na])
