#!/bin/bash
# Run the repository's own test suite (guard off) in ${1:-/repo}; expected: 217 passed, 4 failed (always-fail multisort tests).
R="${1:-/repo}"
cd "$R" && env -u PERO_OCR_VERIF PYTHONPATH="$R" PYTHONDONTWRITEBYTECODE=1 /venv/bin/python -m pytest -q -p no:cacheprovider --timeout=900 2>&1 | tail -8
