#!/venv/bin/python
"""Self-test of the monitors: apply a realistic breaking edit to a scratch worktree of /repo (never to /repo),
confirm the repository's own tests still pass, and confirm the property's check fires.

  tools/mut.py list
  tools/mut.py run <ID> [name-substring] [--tier quick|thorough] [--no-tests]
Mutations are listed in selftest/mutations.py as dicts(prop, name, file, old, new[, count]).
"""
import os, subprocess, sys, shutil, tempfile, json, re, time
HERE = os.path.dirname(os.path.dirname(os.path.abspath(__file__)))
sys.path.insert(0, os.path.join(HERE, 'selftest'))
from mutations import MUTATIONS


def sh(cmd, **kw):
    return subprocess.run(cmd, shell=True, capture_output=True, text=True, **kw)


def run_one(m, tier='quick', tests=True):
    wt = tempfile.mkdtemp(prefix='mut_', dir='/tmp')
    os.rmdir(wt)
    r = sh('git -C /repo worktree add --detach %s HEAD' % wt)
    assert r.returncode == 0, r.stderr
    out = tempfile.mkdtemp(prefix='mutout_', dir='/tmp')
    try:
        edits = m['edits'] if 'edits' in m else [m]
        for e in edits:
            p = os.path.join(wt, e['file'])
            s = open(p, encoding='utf8').read()
            cnt = s.count(e['old'])
            assert cnt == e.get('count', 1), 'mutation %s: pattern occurs %d times in %s' % (m['name'], cnt, e['file'])
            open(p, 'w', encoding='utf8').write(s.replace(e['old'], e['new']))
        res = {'prop': m['prop'], 'name': m['name']}
        if tests:
            t = sh(os.path.join(HERE, 'tools/repo_tests.sh') + ' ' + wt)
            mm = re.search(r'(\d+) failed, (\d+) passed', t.stdout)
            res['tests'] = '%s passed / %s failed' % (mm.group(2), mm.group(1)) if mm else t.stdout[-200:]
            res['tests_ok'] = bool(mm and mm.group(2) == '217' and mm.group(1) == '4')
        t0 = time.time()
        c = sh('VERIF_REPO=%s VERIF_OUT=%s %s/check %s %s' % (wt, out, HERE, m['prop'], tier))
        res['check_exit'] = c.returncode
        res['wall_s'] = round(time.time() - t0, 1)
        res['violation_lines'] = [l for l in c.stdout.splitlines() if l.startswith('VIOLATION') or l.strip().startswith('clause=')][:4]
        if c.returncode not in (0, 1):
            res['output_tail'] = (c.stdout + c.stderr)[-800:]
        return res
    finally:
        sh('git -C /repo worktree remove --force %s' % wt)
        shutil.rmtree(out, ignore_errors=True)
        shutil.rmtree(wt, ignore_errors=True)


if __name__ == '__main__':
    a = sys.argv[1:]
    if a[0] == 'list':
        for m in MUTATIONS:
            print(m['prop'], m['name'])
        sys.exit(0)
    tier = 'quick'
    if '--tier' in a:
        tier = a[a.index('--tier') + 1]
    tests = '--no-tests' not in a
    pid = a[1].upper()
    sub = a[2] if len(a) > 2 and not a[2].startswith('--') else ''
    missed = 0
    for m in MUTATIONS:
        if (pid == 'ALL' or m['prop'] == pid) and sub in m['name']:
            r = run_one(m, tier, tests)
            caught = r['check_exit'] == 1
            missed += (not caught)
            print('%s %-45s tests=%s check_exit=%s %s %.0fs' % (r['prop'], r['name'], r.get('tests', 'skipped'), r['check_exit'], 'CAUGHT' if caught else 'MISSED', r['wall_s']))
            for l in r['violation_lines'][:2]:
                print('      ' + l[:300])
            if 'output_tail' in r:
                print(r['output_tail'])
    sys.exit(1 if missed else 0)
