#!/venv/bin/python
"""Confirm and keep a seeded breaking change produced by an independent sub-agent.

  tools/seed.py keep <agent_worktree> <A|B> [--checks C01,C06] [--tier quick]
Steps (all in a FRESH scratch worktree of /repo HEAD, never in /repo):
  1. demo on the clean tree must exit 0;  2. patch applies; repository tests give 217 passed / 4 failed;  3. demo exits 1 with the patch;
  4. the property's check (and any extra checks) run against the patched tree; exit status and violation lines are recorded.
The seed is stored as /verif/seeded/<ID>-<name>/{patch.diff, demo.py, meta.json}.

  tools/seed.py rerun [<ID>-<name> ...] [--tier quick]     re-run the checks against kept seeds and update meta.json
"""
import json, os, re, shutil, subprocess, sys, tempfile, time
HERE = os.path.dirname(os.path.dirname(os.path.abspath(__file__)))


def sh(cmd, **kw):
    return subprocess.run(cmd, shell=True, capture_output=True, text=True, **kw)


def fresh_worktree():
    wt = tempfile.mkdtemp(prefix='sv_', dir='/tmp'); os.rmdir(wt)
    r = sh('git -C /repo worktree add --detach %s HEAD' % wt); assert r.returncode == 0, r.stderr
    return wt


def drop(wt):
    sh('git -C /repo worktree remove --force %s' % wt); shutil.rmtree(wt, ignore_errors=True)


def run_checks(wt, checks, tier):
    out = tempfile.mkdtemp(prefix='svout_', dir='/tmp')
    res = {}
    for c in checks:
        t0 = time.time()
        r = sh('VERIF_REPO=%s VERIF_OUT=%s %s/check %s %s' % (wt, out, HERE, c, tier))
        clauses = sorted(set(re.findall(r'clause=(.*?) mechanism=', r.stdout)))
        res[c] = {'exit': r.returncode, 'wall_s': round(time.time() - t0, 1), 'violated_clauses': clauses[:8],
                  'first_detail': next((l.strip()[:400] for l in r.stdout.splitlines() if l.strip().startswith('clause=')), None)}
        if r.returncode not in (0, 1):
            res[c]['tail'] = (r.stdout + r.stderr)[-600:]
    shutil.rmtree(out, ignore_errors=True)
    return res


def keep(agent_wt, name, checks, tier, suffix=''):
    meta_src = json.load(open(os.path.join(agent_wt, 'seed', 'meta.json')))
    pid = meta_src['property']
    seed_meta = next(s for s in meta_src['seeds'] if s['name'] == name)
    patch = os.path.join(agent_wt, 'seed', 'patch_%s.diff' % name)
    demo = os.path.join(agent_wt, 'seed', 'demo_%s.py' % name)
    wt = fresh_worktree()
    try:
        os.makedirs(wt + '/seed')
        shutil.copy(demo, wt + '/seed/demo.py')
        # helper modules a demonstration imports (anything in the agent's seed/ that is not a patch, a demo or a description)
        helpers = [f for f in os.listdir(os.path.join(agent_wt, 'seed')) if f.endswith('.py') and not f.startswith('demo_')]
        for f in helpers:
            shutil.copy(os.path.join(agent_wt, 'seed', f), wt + '/seed/' + f)
        env = 'cd %s && PYTHONPATH=%s PYTHONWARNINGS=ignore timeout 300 /venv/bin/python seed/demo.py' % (wt, wt)
        d0 = sh(env)
        ap = sh('git -C %s apply %s' % (wt, patch))
        t = sh(os.path.join(HERE, 'tools/repo_tests.sh') + ' ' + wt)
        mm = re.search(r'(\d+) failed, (\d+) passed', t.stdout)
        d1 = sh(env)
        rec = {'property': pid, 'seed': name + suffix, 'summary': seed_meta.get('summary'), 'needs_to_manifest': seed_meta.get('needs_to_manifest'), 'files': seed_meta.get('files'),
               'confirmed': {'demo_clean_exit': d0.returncode, 'patch_applies': ap.returncode == 0, 'repo_tests_with_patch': '%s passed / %s failed' % (mm.group(2), mm.group(1)) if mm else t.stdout[-200:],
                             'demo_patched_exit': d1.returncode, 'demo_patched_output': d1.stdout[-400:]},
               'how_run': 'tools/seed.py keep: fresh worktree of /repo HEAD under /tmp, demo, git apply, tools/repo_tests.sh, demo, VERIF_REPO=<worktree> ./check <ID> %s' % tier}
        ok = d0.returncode == 0 and ap.returncode == 0 and mm and mm.group(2) == '217' and mm.group(1) == '4' and d1.returncode == 1
        rec['valid_seed'] = bool(ok)
        if ok:
            rec['checks'] = run_checks(wt, checks or [pid], tier)
            rec['caught_by'] = [c for c, v in rec['checks'].items() if v['exit'] == 1]
        dst = os.path.join(HERE, 'seeded', '%s-%s%s' % (pid, name, suffix))
        if ok:
            os.makedirs(dst, exist_ok=True)
            shutil.copy(patch, dst + '/patch.diff'); shutil.copy(demo, dst + '/demo.py')
            for f in helpers:
                shutil.copy(os.path.join(agent_wt, 'seed', f), dst + '/' + f)
            json.dump(rec, open(dst + '/meta.json', 'w'), indent=1)
        slim = dict(rec); slim['confirmed'] = dict(rec['confirmed'], demo_patched_output=rec['confirmed']['demo_patched_output'][-200:])
        if 'checks' in slim:
            slim['checks'] = {c: {k: (v2[:200] if isinstance(v2, str) else v2) for k, v2 in v.items()} for c, v in slim['checks'].items()}
        print(json.dumps(slim))
        return rec
    finally:
        drop(wt)


def rerun(names, tier):
    base = os.path.join(HERE, 'seeded')
    for d in sorted(os.listdir(base)):
        if names and d not in names:
            continue
        rec = json.load(open(os.path.join(base, d, 'meta.json')))
        wt = fresh_worktree()
        try:
            ap = sh('git -C %s apply %s' % (wt, os.path.join(base, d, 'patch.diff')))
            if ap.returncode != 0:
                print(d, 'PATCH NO LONGER APPLIES'); continue
            checks = sorted(set([rec['property']] + list(rec.get('checks', {}))))
            rec['checks'] = run_checks(wt, checks, tier)
            rec['caught_by'] = [c for c, v in rec['checks'].items() if v['exit'] == 1]
            if '--no-save' not in sys.argv:      # e.g. VERIF_SEED=3 tools/seed.py rerun --no-save: how robust is the detection against the workload seed
                json.dump(rec, open(os.path.join(base, d, 'meta.json'), 'w'), indent=1)
            print(d, 'caught by', rec['caught_by'] or 'NOTHING', {c: v['exit'] for c, v in rec['checks'].items()}, (rec['checks'][rec['property']]['violated_clauses'] or [''])[:2])
        finally:
            drop(wt)


if __name__ == '__main__':
    a = sys.argv[1:]
    tier = a[a.index('--tier') + 1] if '--tier' in a else 'quick'
    if a[0] == 'keep':
        checks = a[a.index('--checks') + 1].split(',') if '--checks' in a else None
        keep(a[1], a[2], checks, tier, a[a.index('--suffix') + 1] if '--suffix' in a else '')
    elif a[0] == 'rerun':
        rerun([x for x in a[1:] if not x.startswith('--') and x not in ('quick', 'thorough')], tier)
